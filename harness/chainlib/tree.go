package chainlib

import (
	"context"
	"fmt"
	"math/big"

	"gitlab.com/aquachain/aquachain/aquadb"
	"gitlab.com/aquachain/aquachain/common"
	"gitlab.com/aquachain/aquachain/consensus"
	"gitlab.com/aquachain/aquachain/consensus/aquahash"
	"gitlab.com/aquachain/aquachain/core"
	"gitlab.com/aquachain/aquachain/core/types"
	"gitlab.com/aquachain/aquachain/crypto"
	"gitlab.com/aquachain/aquachain/params"
	"gitlab.com/aquachain/aquachain/verifharness/vh"
)

// DiffEngine is the full-fake aquahash engine (accepts every header) whose
// CalcDifficulty answers from a queue filled by the tree builder, so that the
// harness decides every block's difficulty.
type DiffEngine struct {
	*aquahash.Aquahash
	Queue []*big.Int
}

func NewDiffEngine() *DiffEngine { return &DiffEngine{Aquahash: aquahash.NewFullFaker()} }

func (e *DiffEngine) CalcDifficulty(chain consensus.ChainReader, time uint64, parent, grandparent *types.Header) *big.Int {
	if len(e.Queue) == 0 {
		return big.NewInt(100)
	}
	d := e.Queue[0]
	e.Queue = e.Queue[1:]
	return new(big.Int).Set(d)
}

// ---------------------------------------------------------------- scenario description (also the replay format)

type TxSpec struct {
	Acct    int `json:"acct"`    // which funded account sends
	Variant int `json:"variant"` // value = 1000 + variant: same (acct, nonce, variant) on two branches = the same transaction
}

type NodeSpec struct {
	Parent int      `json:"parent"` // index of the parent node; node 0 is the genesis block
	Diff   int64    `json:"diff"`
	Txs    []TxSpec `json:"txs,omitempty"`
	Valid  bool     `json:"valid"` // false: header.GasUsed is off by one (fails ValidateState)
	// "deploy": account 3 creates five contracts (nonces 0..4): code without storage; storage and its own
	// code; two contracts with the SAME code, one without and one with storage; a contract with one slot
	// whose code clears it.  "clear": account 3 calls the fifth contract, which empties its storage.
	Contracts string `json:"contracts,omitempty"`
	Fan       int    `json:"fan,omitempty"` // additionally: a contract creation whose init code writes this many storage slots (a big state change: one trie commit spans several batch flushes)
}

type OpSpec struct {
	Sess  string `json:"sess"`            // "f" full chain, "h" header-only chain
	Kind  string `json:"kind"`            // insert | headers | sethead | reopen
	Nodes []int  `json:"nodes,omitempty"` // chain of node indices for insert / headers
	N     uint64 `json:"n,omitempty"`     // target of sethead
	Seed  int64  `json:"seed,omitempty"`  // seed of math/rand for the tie-break coin
}

type Scenario struct {
	Name  string     `json:"name"`
	Nodes []NodeSpec `json:"nodes"` // Nodes[0] describes nothing (genesis)
	Ops   []OpSpec   `json:"ops"`
}

// ---------------------------------------------------------------- building the tree with core.GenerateChain

var keyHex = []string{
	"b71c71a67e1177ad4e901695e1b4b9ee17ae16c6668d313eac2f96dbcda3f291",
	"8a1f9a8f95be41cd7ccb6168179afb4504aefe388d1e14474d32c45c72ce7b7a",
	"49a7b37aa6f6645917e7b807e9d1c00d4fa71f18343b0d4122a4d2df64dd6fee",
	"45a915e4d060149eb4365960e6a7a45f334393093061116b197e3240065ff2d8",
}

const GenesisDiff = 100

type Tree struct {
	Spec   []NodeSpec
	Blocks []*types.Block
	Num    []uint64
	TrueTd []*big.Int // sum of difficulties from genesis, from the spec alone
	TxsOf  [][]common.Hash
	AllTxs []common.Hash // in order of first appearance; id = index+1
	Roots  []common.Hash // distinct state roots in order of first appearance; id = index+1
	Ids    *Ids
	Gspec  *core.Genesis
	Config *params.ChainConfig
	Engine *DiffEngine
	MaxNum uint64
	ByHash map[common.Hash]int
}

func (t *Tree) Id(i int) int { return i + 1 } // model id of node i (0 is the zero hash)

// IsAncestor reports whether node a is an ancestor of (or equal to) node b.
func (t *Tree) IsAncestor(a, b int) bool {
	for b != a && b != 0 {
		b = t.Spec[b].Parent
	}
	return b == a
}

// AncestorAt returns the ancestor of node b at height n (-1 if n is above b).
func (t *Tree) AncestorAt(b int, n uint64) int {
	if n > t.Num[b] {
		return -1
	}
	for t.Num[b] > n {
		b = t.Spec[b].Parent
	}
	return b
}

// GspecFor: the genesis of a scenario (the gas limit is raised when a block carries a big contract creation).
func GspecFor(spec []NodeSpec) *core.Genesis {
	g := NewGspec()
	for _, sp := range spec {
		if sp.Fan > 0 {
			g.GasLimit = 400000000 // room for thousands of SSTOREs in one transaction
		}
	}
	return g
}

func NewGspec() *core.Genesis {
	alloc := core.GenesisAlloc{}
	for _, k := range keyHex {
		key, _ := crypto.HexToBtcec(k)
		alloc[crypto.PubkeyToAddress(key.PubKey())] = core.GenesisAccount{Balance: big.NewInt(1000000000)}
	}
	return &core.Genesis{Config: params.TestChainConfig, GasLimit: 3141592, Difficulty: big.NewInt(GenesisDiff), Alloc: alloc}
}

func BuildTree(c *vh.Ctx, spec []NodeSpec) *Tree {
	t := &Tree{Spec: spec, Gspec: GspecFor(spec), Engine: NewDiffEngine(), ByHash: map[common.Hash]int{}}
	t.Config = t.Gspec.Config
	t.Ids = &Ids{Block: map[common.Hash]int{}, Root: map[common.Hash]int{}, Tx: map[common.Hash]int{}}
	gendb := aquadb.NewMemDatabase()
	genesis := t.Gspec.MustCommit(gendb)
	signer := types.NewEIP155Signer(t.Config.ChainId)
	dest := common.HexToAddress("0x00000000000000000000000000000000000000aa")
	n := len(spec)
	t.Blocks = make([]*types.Block, n)
	t.Num = make([]uint64, n)
	t.TrueTd = make([]*big.Int, n)
	t.TxsOf = make([][]common.Hash, n)
	t.Blocks[0] = genesis
	t.TrueTd[0] = big.NewInt(GenesisDiff)
	addRoot := func(r common.Hash) {
		if _, ok := t.Ids.Root[r]; !ok {
			t.Roots = append(t.Roots, r)
			t.Ids.Root[r] = len(t.Roots)
		}
	}
	t.Ids.Block[genesis.Hash()] = 1
	t.ByHash[genesis.Hash()] = 0
	addRoot(genesis.Root())
	for i := 1; i < n; i++ {
		sp := spec[i]
		if sp.Parent < 0 || sp.Parent >= i {
			c.Fatal("bad tree spec: node %d has parent %d", i, sp.Parent)
		}
		parent := t.Blocks[sp.Parent]
		t.Engine.Queue = []*big.Int{big.NewInt(sp.Diff)}
		blocks, _ := core.GenerateChain(context.Background(), t.Config, parent, t.Engine, gendb, 1, func(_ int, g *core.BlockGen) {
			g.SetExtra([]byte{byte(i >> 8), byte(i)})
			for _, ts := range sp.Txs {
				key, _ := crypto.HexToBtcec(keyHex[ts.Acct%len(keyHex)])
				from := crypto.PubkeyToAddress(key.PubKey())
				tx, err := types.SignTx(types.NewTransaction(g.TxNonce(from), dest, big.NewInt(int64(1000+ts.Variant)), params.TxGas, nil, nil), signer, key)
				if err != nil {
					c.Fatal("sign: %v", err)
				}
				g.AddTx(tx)
			}
			if sp.Contracts != "" {
				key, _ := crypto.HexToBtcec(keyHex[3])
				from := crypto.PubkeyToAddress(key.PubKey())
				// init code: [optional SSTORE(1,1)] ; CODECOPY the runtime to memory 0 ; RETURN it
				initCode := func(store bool, runtime []byte) []byte {
					var c []byte
					if store {
						c = append(c, 0x60, 0x01, 0x60, 0x01, 0x55)
					}
					off := byte(len(c) + 12)
					c = append(c, 0x60, byte(len(runtime)), 0x60, off, 0x60, 0x00, 0x39, 0x60, byte(len(runtime)), 0x60, 0x00, 0xf3)
					return append(c, runtime...)
				}
				send := func(tx *types.Transaction) {
					stx, err := types.SignTx(tx, signer, key)
					if err != nil {
						c.Fatal("sign: %v", err)
					}
					g.AddTx(stx)
				}
				switch sp.Contracts {
				case "deploy":
					if g.TxNonce(from) != 0 {
						c.Fatal("contracts: account 3 must be unused before the deploy block")
					}
					shared := []byte{0x60, 0x33, 0x50, 0x00}
					for _, ic := range [][]byte{
						initCode(false, []byte{0x60, 0x11, 0x50, 0x00}),            // (i) code, no storage
						initCode(true, []byte{0x60, 0x22, 0x50, 0x00}),             // (ii) storage, own code
						initCode(false, shared),                                    // (iii-a) shared code, no storage
						initCode(true, shared),                                     // (iii-b) shared code, storage
						initCode(true, []byte{0x60, 0x00, 0x60, 0x01, 0x55, 0x00}), // (iv) one slot; calling it clears the slot
					} {
						send(types.NewContractCreation(g.TxNonce(from), big.NewInt(0), 300000, nil, ic))
					}
				case "clear":
					send(types.NewTransaction(g.TxNonce(from), crypto.CreateAddress(from, 4), big.NewInt(0), 100000, nil, nil))
				default:
					c.Fatal("unknown contracts preset %q", sp.Contracts)
				}
			}
			if sp.Fan > 0 {
				// one contract creation whose init code stores Fan slots:
				//   PUSH2 n; JUMPDEST; DUP1; DUP1; SSTORE; PUSH1 1; SWAP1; SUB; DUP1; PUSH1 3; JUMPI; STOP
				key, _ := crypto.HexToBtcec(keyHex[0])
				from := crypto.PubkeyToAddress(key.PubKey())
				code := []byte{0x61, byte(sp.Fan >> 8), byte(sp.Fan), 0x5b, 0x80, 0x80, 0x55, 0x60, 0x01, 0x90, 0x03, 0x80, 0x60, 0x03, 0x57, 0x00}
				tx, err := types.SignTx(types.NewContractCreation(g.TxNonce(from), big.NewInt(0), uint64(sp.Fan)*21000+200000, nil, code), signer, key)
				if err != nil {
					c.Fatal("sign: %v", err)
				}
				g.AddTx(tx)
			}
		})
		b := blocks[0]
		if !sp.Valid {
			h := b.Header()
			h.GasUsed++
			b = types.NewBlockWithHeader(h).WithBody(b.Transactions(), b.Uncles())
		}
		if b.Difficulty().Int64() != sp.Diff {
			c.Fatal("difficulty control failed: node %d has %v want %d", i, b.Difficulty(), sp.Diff)
		}
		t.Blocks[i] = b
		t.Num[i] = b.NumberU64()
		if t.Num[i] > t.MaxNum {
			t.MaxNum = t.Num[i]
		}
		t.TrueTd[i] = new(big.Int).Add(t.TrueTd[sp.Parent], big.NewInt(sp.Diff))
		if _, dup := t.Ids.Block[b.Hash()]; dup {
			c.Fatal("two tree nodes with the same hash (node %d)", i)
		}
		t.Ids.Block[b.Hash()] = t.Id(i)
		t.ByHash[b.Hash()] = i
		addRoot(b.Root())
		for _, tx := range b.Transactions() {
			t.TxsOf[i] = append(t.TxsOf[i], tx.Hash())
			if _, ok := t.Ids.Tx[tx.Hash()]; !ok {
				t.AllTxs = append(t.AllTxs, tx.Hash())
				t.Ids.Tx[tx.Hash()] = len(t.AllTxs)
			}
		}
	}
	return t
}

// model encodings
func (t *Tree) HeaderStr(i int) string {
	b := t.Blocks[i]
	pid := 0
	if i > 0 {
		pid = t.Id(t.Spec[i].Parent)
	}
	return fmt.Sprintf("%d,%d,%d,%d,%d", t.Id(i), pid, t.Num[i], b.Difficulty(), t.Ids.Root[b.Root()])
}
func (t *Tree) BlockStr(i int) string {
	v := "0"
	if t.Spec[i].Valid {
		v = "1"
	}
	txs := "-"
	for k, h := range t.TxsOf[i] {
		if k == 0 {
			txs = ""
		} else {
			txs += ":"
		}
		txs += fmt.Sprint(t.Ids.Tx[h])
	}
	return t.HeaderStr(i) + "," + v + "," + txs
}
