package chainlib

import (
	"encoding/json"
	"fmt"
	"os"

	"gitlab.com/aquachain/aquachain/verifharness/vh"
)

// Scripted scenarios: the minimal histories behind each clause (they double as the corpus).
func Scripted(prop string) []*Scenario {
	v := func(p int, d int64, txs ...TxSpec) NodeSpec {
		return NodeSpec{Parent: p, Diff: d, Txs: txs, Valid: true}
	}
	tx := func(a, variant int) TxSpec { return TxSpec{a, variant} }
	// nodes: 1-2-3 (100 each, txs), 4 on genesis (300: tie with lower number), 5 on genesis (400: shorter, heavier),
	// 6 on 5 (10), 7-8 on 3 (longer, lighter than 5-6? 100+100) ...
	nodes := []NodeSpec{{}, v(0, 100, tx(0, 0), tx(1, 0)), v(1, 100, tx(0, 0)), v(2, 100), v(0, 300, tx(0, 0)), v(0, 400, tx(2, 0)), v(5, 10), v(3, 100), v(7, 100, tx(3, 1))}
	ins := func(s string, seed int64, n ...int) OpSpec {
		return OpSpec{Sess: s, Kind: "insert", Nodes: n, Seed: seed}
	}
	hdr := func(s string, seed int64, n ...int) OpSpec {
		return OpSpec{Sess: s, Kind: "headers", Nodes: n, Seed: seed}
	}
	out := []*Scenario{
		{Name: "shorter-heavier", Nodes: nodes, Ops: []OpSpec{ins("f", 1, 1, 2, 3), ins("f", 2, 4), ins("f", 3, 5), ins("f", 4, 6), {Sess: "f", Kind: "reopen"}, ins("f", 5, 7, 8), ins("f", 6, 1, 2)}},
		{Name: "tie-coin", Nodes: []NodeSpec{{}, v(0, 100), v(0, 100), v(0, 100), v(1, 50), v(2, 50)},
			Ops: []OpSpec{ins("f", 1, 1), ins("f", 1, 2), ins("f", 2, 3), ins("f", 3, 4), ins("f", 3, 5), ins("f", 4, 5)}},
		{Name: "child-first", Nodes: []NodeSpec{{}, v(0, 100), v(1, 100), v(2, 100), {Parent: 1, Diff: 500, Valid: false}, v(4, 100)},
			Ops: []OpSpec{ins("f", 1, 2, 3), ins("f", 1, 1), ins("f", 1, 2, 3), ins("f", 1, 4, 5), ins("f", 1, 5), ins("f", 1, 1, 2, 3)}},
		{Name: "headers", Nodes: nodes, Ops: []OpSpec{hdr("h", 1, 1, 2, 3), hdr("h", 2, 4), hdr("h", 3, 5, 6), {Sess: "h", Kind: "reopen"}, hdr("h", 4, 7, 8), hdr("h", 4, 2)}},
	}
	rb := func(n ...int) OpSpec { return OpSpec{Sess: "f", Kind: "rollback", Nodes: n} }
	out = append(out,
		// Rollback of the last header(s), then the sync resumes on the CHILD of a block that is still stored:
		// reorg's old chain is empty ("Impossible reorg" is logged) and the stored blocks are re-adopted
		&Scenario{Name: "rollback-then-next", Nodes: []NodeSpec{{}, v(0, 100, tx(0, 0)), v(1, 100), v(2, 100, tx(1, 0)), v(3, 100), v(4, 100), v(2, 100)},
			Ops: []OpSpec{ins("f", 1, 1, 2, 3), rb(3), ins("f", 1, 4), rb(3, 4), ins("f", 1, 5), rb(2, 3, 4, 5), {Sess: "f", Kind: "reopen"}, ins("f", 1, 4, 5), rb(5), ins("f", 1, 6), ins("f", 1, 5)}})
	if prop == "C03" {
		out = append(out,
			&Scenario{Name: "sethead", Nodes: nodes, Ops: []OpSpec{ins("f", 1, 1, 2, 3), {Sess: "f", Kind: "sethead", N: 1}, ins("f", 2, 5), {Sess: "f", Kind: "reopen"}, ins("f", 3, 2, 3), {Sess: "f", Kind: "sethead", N: 0}, ins("f", 3, 1, 2, 3)}},
			&Scenario{Name: "sethead-headers", Nodes: nodes, Ops: []OpSpec{hdr("h", 1, 1, 2, 3), {Sess: "h", Kind: "sethead", N: 1}, hdr("h", 3, 7, 8), hdr("h", 2, 2, 3, 7, 8), {Sess: "h", Kind: "sethead", N: 9}, {Sess: "h", Kind: "sethead", N: 0}}},
			&Scenario{Name: "sethead-orphan-header", Nodes: []NodeSpec{{}, v(0, 100), v(1, 100), v(2, 100), v(2, 50), v(4, 500)},
				Ops: []OpSpec{hdr("h", 1, 1, 2, 3), hdr("h", 1, 4), {Sess: "h", Kind: "sethead", N: 1}, hdr("h", 1, 5)}},
			&Scenario{Name: "sethead-orphan-side-block", Nodes: []NodeSpec{{}, v(0, 100), v(1, 100), v(2, 100), v(2, 50)},
				Ops: []OpSpec{ins("f", 1, 1, 2, 3), ins("f", 1, 4), {Sess: "f", Kind: "sethead", N: 1}, ins("f", 1, 4)}},
			&Scenario{Name: "headers-first-then-blocks", Nodes: nodes, Ops: []OpSpec{hdr("m", 1, 1, 2, 3, 7, 8), ins("m", 1, 1, 2), ins("m", 1, 3), {Sess: "m", Kind: "sethead", N: 2},
				ins("m", 1, 3, 7), hdr("m", 1, 8), {Sess: "m", Kind: "sethead", N: 4}, {Sess: "m", Kind: "reopen"}, ins("m", 1, 8), {Sess: "m", Kind: "sethead", N: 1}}},
			// blocks 1-2-3-4-5, then 6 on 2 (shorter, heavier: stale entries 4,5), SetHead 0 (removes 6,2,1 but
			// keeps 3,4,5 and their TDs), then the header of 7 (child of 5) is accepted on the orphaned branch
			&Scenario{Name: "headers-on-orphaned-side-header", Nodes: []NodeSpec{{}, v(0, 100), v(1, 100), v(2, 100), v(3, 100), v(4, 100), v(2, 500), v(5, 100)},
				Ops: []OpSpec{ins("m", 1, 1, 2, 3, 4, 5), ins("m", 1, 6), {Sess: "m", Kind: "sethead", N: 0}, hdr("m", 1, 7)}},
			prunedSideScenario(),
			&Scenario{Name: "mixed", Nodes: nodes, Ops: []OpSpec{ins("m", 1, 1, 2), hdr("m", 1, 3, 7, 8), ins("m", 2, 3), {Sess: "m", Kind: "sethead", N: 3}, hdr("m", 2, 5, 6), ins("m", 3, 7), {Sess: "m", Kind: "reopen"}, ins("m", 3, 5, 6)}},
		)
		out = append(out, HeaderAfterShorterScenarios()...)
	}
	return out
}

// prunedSideScenario: pruning node, 134 empty blocks, restart (only HEAD, HEAD-1 and
// HEAD-127 keep their state), then a sibling of block 133 (same state root as block 133,
// parent state gone) followed by a heavy child: the sibling becomes canonical without receipts.
func prunedSideScenario() *Scenario {
	sc := &Scenario{Name: "pruned-side-block-without-receipts", Nodes: []NodeSpec{{}}}
	for i := 1; i <= 134; i++ {
		sc.Nodes = append(sc.Nodes, NodeSpec{Parent: i - 1, Diff: 100, Valid: true})
	}
	sc.Nodes = append(sc.Nodes, NodeSpec{Parent: 132, Diff: 90, Valid: true}, NodeSpec{Parent: 135, Diff: 400, Valid: true})
	main := make([]int, 134)
	for i := range main {
		main[i] = i + 1
	}
	sc.Ops = []OpSpec{{Sess: "p", Kind: "insert", Nodes: main[:70], Seed: 1}, {Sess: "p", Kind: "insert", Nodes: main[70:], Seed: 1}, {Sess: "p", Kind: "reopen"},
		{Sess: "p", Kind: "insert", Nodes: []int{135}, Seed: 1}, {Sess: "p", Kind: "insert", Nodes: []int{136}, Seed: 1}, {Sess: "p", Kind: "insert", Nodes: []int{135, 136}, Seed: 1}}
	return sc
}

var diffChoices = []int64{100, 100, 100, 100, 50, 150, 200, 300, 400}

// RandomScenario: a random block tree (branch lengths 1-8, difficulties that
// produce longer-lighter, shorter-heavier and exactly tied branches, random
// transfers so that the same transaction can be mined on two branches, a few
// invalid blocks) and a random history over it.
func RandomScenario(rng *vh.RNG, prop string, name string, maxBlocks int) *Scenario {
	sc := &Scenario{Name: name, Nodes: []NodeSpec{{}}}
	depth := []int{0}
	for len(sc.Nodes) < maxBlocks+1 {
		// branch point: mostly near the tip of an existing branch, sometimes anywhere
		var at int
		if rng.Chance(60) {
			lo := len(sc.Nodes) - 6
			if lo < 0 {
				lo = 0
			}
			at = lo + rng.Intn(len(sc.Nodes)-lo)
		} else {
			at = rng.Intn(len(sc.Nodes))
		}
		blen := 1 + rng.Intn(8)
		profile := rng.Intn(4) // 0: all 100, 1: random, 2: heavy short, 3: light
		for j := 0; j < blen && len(sc.Nodes) < maxBlocks+1; j++ {
			var d int64
			switch profile {
			case 0:
				d = 100
			case 1:
				d = diffChoices[rng.Intn(len(diffChoices))]
			case 2:
				d = []int64{200, 300, 400}[rng.Intn(3)]
			default:
				d = []int64{50, 50, 100}[rng.Intn(3)]
			}
			ns := NodeSpec{Parent: at, Diff: d, Valid: !rng.Chance(4)}
			for x := rng.Intn(3); x > 0 && rng.Chance(70); x-- {
				ns.Txs = append(ns.Txs, TxSpec{Acct: rng.Intn(len(keyHex)), Variant: rng.Intn(2)})
			}
			// at most one tx per account per block keeps nonces simple
			seen := map[int]bool{}
			var txs []TxSpec
			for _, t := range ns.Txs {
				if !seen[t.Acct] {
					seen[t.Acct] = true
					txs = append(txs, t)
				}
			}
			ns.Txs = txs
			sc.Nodes = append(sc.Nodes, ns)
			depth = append(depth, depth[at]+1)
			at = len(sc.Nodes) - 1
		}
	}
	n := len(sc.Nodes)
	children := make([][]int, n)
	for i := 1; i < n; i++ {
		children[sc.Nodes[i].Parent] = append(children[sc.Nodes[i].Parent], i)
	}
	maxDepth := 0
	for _, d := range depth {
		if d > maxDepth {
			maxDepth = d
		}
	}
	sess := "f"
	kind := "insert"
	if rng.Chance(25) {
		sess, kind = "h", "headers"
	} else if prop == "C03" && rng.Chance(12) {
		sess = "m"
	}
	sent := make([]bool, n)
	sent[0] = true
	nsent := 1
	chainFrom := func(start int) []int {
		ch := []int{start}
		for l := rng.Intn(9); l > 0; l-- {
			c := children[ch[len(ch)-1]]
			if len(c) == 0 {
				break
			}
			ch = append(ch, c[rng.Intn(len(c))])
		}
		return ch
	}
	for steps := 0; nsent < n && steps < 6*n; steps++ {
		seed := int64(rng.Intn(1 << 30))
		switch {
		case prop == "C03" && rng.Chance(8):
			sc.Ops = append(sc.Ops, OpSpec{Sess: sess, Kind: "sethead", N: uint64(rng.Intn(maxDepth + 2))})
			continue
		case rng.Chance(5):
			sc.Ops = append(sc.Ops, OpSpec{Sess: sess, Kind: "reopen"})
			continue
		case sess == "f" && rng.Chance(4):
			// roll back the last k blocks of some delivered branch (the runner passes the hashes as given;
			// hashes that are not the current head are simply skipped by Rollback)
			var cand []int
			for i := 1; i < n; i++ {
				if sent[i] {
					cand = append(cand, i)
				}
			}
			if len(cand) > 0 {
				tip := cand[rng.Intn(len(cand))]
				var hs []int
				for k, b := 1+rng.Intn(3), tip; k > 0 && b != 0; k, b = k-1, sc.Nodes[b].Parent {
					hs = append([]int{b}, hs...)
				}
				sc.Ops = append(sc.Ops, OpSpec{Sess: sess, Kind: "rollback", Nodes: hs})
			}
			continue
		case sess == "m" && rng.Chance(25):
			// headers running ahead of the blocks
			var cand []int
			for i := 1; i < n; i++ {
				if sent[sc.Nodes[i].Parent] {
					cand = append(cand, i)
				}
			}
			sc.Ops = append(sc.Ops, OpSpec{Sess: sess, Kind: "headers", Nodes: chainFrom(cand[rng.Intn(len(cand))]), Seed: seed})
			continue
		}
		var start int
		switch {
		case rng.Chance(10): // child chain first / orphan / duplicate: anything
			start = 1 + rng.Intn(n-1)
		default: // next in a random linear extension: unsent with sent parent
			var cand []int
			for i := 1; i < n; i++ {
				if !sent[i] && sent[sc.Nodes[i].Parent] {
					cand = append(cand, i)
				}
			}
			start = cand[rng.Intn(len(cand))]
		}
		ch := chainFrom(start)
		sc.Ops = append(sc.Ops, OpSpec{Sess: sess, Kind: kind, Nodes: ch, Seed: seed})
		if sent[sc.Nodes[start].Parent] {
			for _, x := range ch {
				if !sent[x] {
					sent[x] = true
					nsent++
				}
			}
		}
	}
	return sc
}

// PruningScenario: a pruning (non-archive) node.  A main chain longer than
// core.triesInMemory (128) so that the state of its old blocks is garbage
// collected; side branches attached at pruned ancestors (lighter: stored
// without state through the ErrPrunedAncestor branch; one far heavier: the
// `winner` re-execution from the last block that still has state) and at
// unpruned ancestors (ordinary side blocks and reorganisations); re-delivery
// of known blocks: canonical and side, below and above the head.
func PruningScenario(rng *vh.RNG, prop string, name string) *Scenario {
	sc := &Scenario{Name: name, Nodes: []NodeSpec{{}}}
	add := func(parent int, diff int64, txs ...TxSpec) int {
		sc.Nodes = append(sc.Nodes, NodeSpec{Parent: parent, Diff: diff, Valid: true, Txs: txs})
		return len(sc.Nodes) - 1
	}
	L := 134 + rng.Intn(8)
	main := []int{0}
	for i := 1; i <= L; i++ {
		var txs []TxSpec
		if i <= 6 && rng.Chance(50) {
			txs = []TxSpec{{Acct: rng.Intn(len(keyHex)), Variant: 0}}
		}
		main = append(main, add(main[i-1], 100, txs...))
	}
	branch := func(at int, n int, diff int64) []int {
		var out []int
		p := main[at]
		for j := 0; j < n; j++ {
			var txs []TxSpec
			if rng.Chance(40) {
				txs = []TxSpec{{Acct: rng.Intn(len(keyHex)), Variant: rng.Intn(2)}}
			}
			p = add(p, diff, txs...)
			out = append(out, p)
		}
		return out
	}
	prunedAt := func() int { return 1 + rng.Intn(L-131) } // state gone once the head is at L
	lightA := branch(prunedAt(), 1+rng.Intn(3), 60)
	lightB := branch(prunedAt(), 2, 90)
	lightC := branch(prunedAt(), 1, 30)
	recentSide := branch(L-3-rng.Intn(10), 2, 70)
	recentHeavy := branch(L-2, 3, 160) // wins an ordinary reorganisation near the head
	heavyAt := prunedAt()
	// stashed while lighter (WriteBlockWithoutState: no state, no receipts), then its child makes the branch far
	// heavier than the whole main chain: the winner path re-executes the stashed block, which carries a transaction
	heavy := []int{add(main[heavyAt], 60, TxSpec{Acct: 3, Variant: 1})}
	heavy = append(heavy, add(heavy[0], int64(L)*100+5000, TxSpec{Acct: 3, Variant: 0}))
	ins := func(nodes ...int) {
		sc.Ops = append(sc.Ops, OpSpec{Sess: "p", Kind: "insert", Nodes: nodes, Seed: int64(rng.Intn(1 << 30))})
	}
	// import the main chain in random batches
	for i := 1; i <= L; {
		n := 1 + rng.Intn(40)
		if i+n > L+1 {
			n = L + 1 - i
		}
		ins(main[i : i+n]...)
		i += n
	}
	steps := [][]int{lightA, lightA, lightC, lightB[:1], lightB, lightC, recentSide, recentSide,
		main[3:6], main[L-5 : L+1], main[1:3], recentHeavy, recentHeavy[:1], main[L-1 : L+1], lightA}
	for _, st := range steps {
		ins(st...)
		if rng.Chance(8) {
			sc.Ops = append(sc.Ops, OpSpec{Sess: "p", Kind: "reopen"})
		}
	}
	if prop == "C03" && rng.Chance(50) {
		sc.Ops = append(sc.Ops, OpSpec{Sess: "p", Kind: "sethead", N: uint64(L - 2)})
		ins(main[L-1 : L+1]...)
	}
	// the far heavier branch on a pruned ancestor: first its first block, then all of it, then re-deliveries
	ins(heavy[:1]...)
	ins(heavy...)
	ins(heavy...)
	ins(main[heavyAt : heavyAt+3]...) // now side blocks above the (much lower) head
	ins(lightA...)
	ins(main[L-2 : L+1]...)
	return sc
}

func loadRaceSpec(path string) *RaceSpec {
	raw, err := os.ReadFile(path)
	if err != nil {
		return nil
	}
	var f struct {
		Replay struct {
			Race *RaceSpec `json:"race"`
		} `json:"replay"`
	}
	if json.Unmarshal(raw, &f) != nil {
		return nil
	}
	return f.Replay.Race
}

// Main is the body of cmd/c02 and cmd/c03.
func Main(prop string) {
	c := vh.Init(prop)
	m := c.StartModel()
	defer m.Close()
	c.Res.Rule = "a case is one chain operation (InsertChain / InsertHeaderChain / SetHead / close+reopen) applied to core.BlockChain on a recording database and to the extracted Coq model, inside a scenario = block tree built with core.GenerateChain (branch lengths 1-8; difficulties giving longer-lighter, shorter-heavier and tied branches; transfers, the same transaction on several branches; invalid blocks) + a random history (linear extensions in random batches, child-first and duplicate batches, rewinds, reopen); non-trivial = a reorganisation, rewind, reopen or header import, distinct by (scenario, position)"
	c.Assume("blocks are well formed (number = parent number + 1, distinct hashes): everything comes from core.GenerateChain")
	c.Assume("pruning sessions (\"p\": CacheConfig{Disabled:false, TrieNodeLimit:256, TrieTimeLimit:5m}, main chain > 128 blocks) run the direct oracles only - the model is archive-only")
	c.Assume("archive mode (CacheConfig.Disabled) for every session compared with the model; header verification by the full-fake engine; tie-break coin controlled through math/rand.Seed (GODEBUG randseednop=0)")
	uniq := 0
	if c.Replay != "" {
		sc := LoadReplay(c, c.Replay)
		if rs := loadRaceSpec(c.Replay); rs != nil {
			RunRaces(c, rs, sc)
		} else {
			RunScenario(c, m, prop, sc, uniq)
		}
		c.Finish()
		return
	}
	if prop == "C02" {
		RunRaces(c, nil, nil)
	}
	for _, sc := range Scripted(prop) {
		uniq++
		RunScenario(c, m, prop, sc, uniq)
		c.Sample(map[string]interface{}{"scenario": sc.Name, "blocks": len(sc.Nodes) - 1, "ops": sc.Ops})
	}
	for i := 0; i < c.Scale(2, 12); i++ {
		uniq++
		sc := PruningScenario(c.Rng.Fork(), prop, fmt.Sprintf("seed%d-pruning%d", c.Seed, i))
		RunScenario(c, m, prop, sc, uniq)
		c.Count("pruning-scenarios")
	}
	trees := c.Scale(50, 400)
	for i := 0; i < trees; i++ {
		uniq++
		size := c.Scale(40, 300)
		if i%3 != 0 {
			size = 6 + c.Rng.Intn(size-5)
		}
		sc := RandomScenario(c.Rng.Fork(), prop, fmt.Sprintf("seed%d-tree%d", c.Seed, i), size)
		RunScenario(c, m, prop, sc, uniq)
		c.Count(fmt.Sprintf("tree-size:%d0s", (len(sc.Nodes)-1)/10))
	}
	c.Finish()
}
