module gitlab.com/aquachain/aquachain/verifharness

go 1.24.0

require gitlab.com/aquachain/aquachain v0.0.0

require (
	github.com/btcsuite/btcd/btcec/v2 v2.3.5-0.20250307104530-c7191d2913c7 // indirect
	github.com/decred/dcrd/dcrec/secp256k1/v4 v4.4.0 // indirect
	github.com/go-stack/stack v1.8.1 // indirect
	github.com/joho/godotenv v1.5.1 // indirect
	golang.org/x/crypto v0.37.0 // indirect
	golang.org/x/sys v0.32.0 // indirect
)

replace gitlab.com/aquachain/aquachain => /repo
