module gitlab.com/aquachain/aquachain/verifharness

go 1.24.0

require (
	github.com/btcsuite/btcd/btcec/v2 v2.3.5-0.20250307104530-c7191d2913c7
	github.com/golang/snappy v1.0.0
	gitlab.com/aquachain/aquachain v0.0.0
	golang.org/x/crypto v0.37.0
	golang.org/x/text v0.24.0
	golang.org/x/tools v0.32.0
)

require (
	github.com/BurntSushi/toml v1.5.0 // indirect
	github.com/deckarep/golang-set v1.8.0 // indirect
	github.com/decred/dcrd/dcrec/secp256k1/v4 v4.4.0 // indirect
	github.com/edsrzf/mmap-go v1.2.0 // indirect
	github.com/go-stack/stack v1.8.1 // indirect
	github.com/google/uuid v1.6.0 // indirect
	github.com/hashicorp/golang-lru v1.0.2 // indirect
	github.com/huin/goupnp v1.3.0 // indirect
	github.com/jackpal/go-nat-pmp v1.0.2 // indirect
	github.com/joho/godotenv v1.5.1 // indirect
	github.com/mattn/go-colorable v0.1.14 // indirect
	github.com/mattn/go-isatty v0.0.20 // indirect
	github.com/pborman/uuid v1.2.1 // indirect
	github.com/rs/cors v1.11.1 // indirect
	github.com/shopspring/decimal v1.4.0 // indirect
	github.com/syndtr/goleveldb v1.0.0 // indirect
	github.com/urfave/cli/v3 v3.1.1 // indirect
	golang.org/x/mod v0.24.0 // indirect
	golang.org/x/net v0.39.0 // indirect
	golang.org/x/sync v0.13.0 // indirect
	golang.org/x/sys v0.32.0 // indirect
	gopkg.in/olebedev/go-duktape.v3 v3.0.0-20210326210528-650f7c854440 // indirect
)

replace gitlab.com/aquachain/aquachain => /repo
