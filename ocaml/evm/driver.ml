(* modelrun for the EVM instruction area (property C08): one request per line,
   one answer per line.  Numbers are hex quantities ("0x1f") or decimal. *)
open Model
open Vh

let zs = z_of_string
let hz = hex_of_z
let zlist_of_bytes bs = List.map b2z bs
let hex_of_zbytes (l : z list) = hex_of_bytes (List.map z2b l)

let gt_of = function
  | "homestead" -> gasTableHomestead
  | "hf1" -> gasTableHF1
  | "pre150" -> { gt_ExpByte = gasTableHomestead.gt_ExpByte; gt_CreateBySuicide = Z0;
                  gt_Calls = gasTableHomestead.gt_Calls; gt_ExtcodeCopy = gasTableHomestead.gt_ExtcodeCopy }
  | s -> failwith ("gas table " ^ s)

let iset_of = function
  | "frontier" -> Frontier | "homestead" -> Homestead | "byzantium" -> Byzantium
  | "constantinople" -> Constantinople | "spring" -> Spring
  | s -> failwith ("iset " ^ s)
let name_of_iset = function
  | Frontier -> "frontier" | Homestead -> "homestead" | Byzantium -> "byzantium"
  | Constantinople -> "constantinople" | Spring -> "spring"

let opt_of = function "none" -> None | s -> Some (zs s)

let show_pair = function
  | Ok (a, b) -> "ok " ^ hz a ^ " " ^ hz b
  | Err _ -> "err"
  | Panic -> "panic"
let show_one = function
  | Ok a -> "ok " ^ hz a
  | Err _ -> "err"
  | Panic -> "panic"

let top_model = function
  | Ok (t :: _) -> hz t
  | Ok [] -> "empty"
  | Err _ -> "err"
  | Panic -> "panic"
let top_spec = function
  | Some (t :: _) -> hz t
  | Some [] -> "empty"
  | None -> "none"

let zb h = zlist_of_bytes (bytes_of_hex h)
let show_mem = function Ok m -> "ok " ^ hex_of_zbytes m | Err _ -> "err" | Panic -> "panic"
let show_stack = function Ok s -> "ok " ^ String.concat "," (List.map hz s) | Err _ -> "err" | Panic -> "panic"
(* 0 <= z < 2^20, so that Z.to_nat inside a specification function stays small *)
let rec pos_bits = function XH -> 1 | XO p -> 1 + pos_bits p | XI p -> 1 + pos_bits p
let small z = match z with Z0 -> true | Zpos p -> pos_bits p <= 20 | Zneg _ -> false

let bool_of = function "true" | "1" -> true | "false" | "0" -> false | s -> failwith ("bool " ^ s)
let n_to_z_len l = z_of_int (List.length l)
let gtf_of = function
  | "homestead" -> gasTableHomestead_full
  | "hf1" -> gasTableHF1_full
  | "pre150" -> { gasTableHomestead_full with gf_CreateBySuicide = Z0 }
  | s -> failwith ("gas table " ^ s)

let handle toks =
  match toks with
  (* op OPCODE a b c: result of the Go-shaped model and of the specification on the same operands *)
  | "op" :: op :: args ->
    let st = List.map zs args in
    "m=" ^ top_model (exec_arith (zs op) st) ^ " s=" ^ top_spec (spec_arith (zs op) st)
  (* opgas OPCODE GASTABLE a b ..: gas the interpreter charges for the instruction; spec value for EXP *)
  | "opgas" :: op :: gt :: args ->
    let o = zs op in
    if int_of_z o = 0x0a then
      (match args with
       | _ :: e :: _ -> "m=" ^ show_one (gasExp (gt_of gt) (zs e)) ^ " s=" ^ hz (g_exp (gt_of gt).gt_ExpByte (zs e))
       | _ -> "driver-error exp-args")
    else (match arith_const_gas o with Some g -> "m=ok " ^ hz g ^ " s=" ^ hz g | None -> "m=none s=none")
  | ["valid"; s; op] -> string_of_bool_ (spec_valid (iset_of s) (zs op))
  | ["wordsize"; n] -> hz (toWordSize (zs n)) ^ " s=" ^ hz (ceil32 (zs n))
  | ["memsize"; off; len] ->
    let need = (match zs len with Z0 -> Z0 | l -> Z.add (zs off) l) in
    show_one (run_memorySize (calcMemSize (zs off) (zs len))) ^ " s=" ^ hz (Z.mul (zs "32") (ceil32 need))
  | ["memgas"; memlen; last; n] -> show_pair (memoryGasCost (zs memlen) (zs last) (zs n))
  (* specmem w0 n: (fee, total) the formula gives when memory of w0 words grows to cover n bytes *)
  | ["specmem"; w0; n] ->
    let w = Z.max (zs w0) (ceil32 (zs n)) in
    hz (Z.sub (cmem w) (cmem (zs w0))) ^ " " ^ hz (cmem w)
  | ["gasfn"; name; gt; memlen; last; ms; x] ->
    let ml = zs memlen and la = zs last and m = zs ms and v = zs x in
    (match name with
     | "gasSha3" -> show_pair (gasSha3 ml la m v) ^ " s=" ^ hz (g_sha3 v)
     | "gasCallDataCopy" -> show_pair (gasCallDataCopy ml la m v) ^ " s=" ^ hz (g_copy v)
     | "gasReturnDataCopy" -> show_pair (gasReturnDataCopy ml la m v) ^ " s=" ^ hz (g_copy v)
     | "gasCodeCopy" -> show_pair (gasCodeCopy ml la m v) ^ " s=" ^ hz (g_copy v)
     | "gasExtCodeCopy" -> show_pair (gasExtCodeCopy (gt_of gt) ml la m v) ^ " s=" ^ hz (Z.add (Z.sub (g_copy v) (zs "3")) (gt_of gt).gt_ExtcodeCopy)
     | "gasMLoad" -> show_pair (gasMLoad ml la m) ^ " s=0x3"
     | "gasMStore" -> show_pair (gasMStore ml la m) ^ " s=0x3"
     | "gasMStore8" -> show_pair (gasMStore8 ml la m) ^ " s=0x3"
     | "gasCreate" -> show_pair (gasCreate ml la m) ^ " s=0x7d00"
     | "gasReturn" | "gasRevert" -> show_pair (gasReturn ml la m) ^ " s=0x0"
     | "gasLog0" -> show_pair (gasLog (zs "0") ml la m v) ^ " s=" ^ hz (g_log (zs "0") v)
     | "gasLog1" -> show_pair (gasLog (zs "1") ml la m v) ^ " s=" ^ hz (g_log (zs "1") v)
     | "gasLog2" -> show_pair (gasLog (zs "2") ml la m v) ^ " s=" ^ hz (g_log (zs "2") v)
     | "gasLog3" -> show_pair (gasLog (zs "3") ml la m v) ^ " s=" ^ hz (g_log (zs "3") v)
     | "gasLog4" -> show_pair (gasLog (zs "4") ml la m v) ^ " s=" ^ hz (g_log (zs "4") v)
     | "gasExp" -> (match gasExp (gt_of gt) v with Ok g -> "ok " ^ hz g ^ " " ^ hz la | Err _ -> "err" | Panic -> "panic")
                   ^ " s=" ^ hz (g_exp (gt_of gt).gt_ExpByte v)
     | _ -> "driver-error gasfn " ^ name)
  | ["callgas"; gt; avail; base; cost] ->
    show_one (callGas (gt_of gt) (zs avail) (zs base) (zs cost)) ^ " s=" ^ hz (c_gascap (zs avail) (zs base) (zs cost))
  | ["vstack"; pop; push; len] ->
    (match validateStack (zs pop) (zs push) (zs len) with
     | Ok _ -> "ok" | Err ErrStackUnderflow -> "underflow" | Err ErrStackLimit -> "limit" | Err _ -> "err" | Panic -> "panic")
  | ["has"; code; dest] ->
    (match has (zlist_of_bytes (bytes_of_hex code)) (zs dest) with
     | Ok b -> "ok " ^ string_of_bool_ b | Err _ -> "err" | Panic -> "panic")
  | ["bitmap"; code] ->
    (match codeBitmap (zlist_of_bytes (bytes_of_hex code)) with
     | Ok m -> hex_of_zbytes m | Err _ -> "err" | Panic -> "panic")
  | ["select"; hs; byz; con; hf5; hf1; num] ->
    let c = { cc_homestead = opt_of hs; cc_byzantium = opt_of byz; cc_constantinople = opt_of con;
              cc_hf5 = opt_of hf5; cc_hf1 = opt_of hf1 } in
    name_of_iset (select_iset c (zs num)) ^ " " ^ hz (select_gastable c (zs num)).gt_ExpByte
  (* ---- stack / memory / code / call-data instructions on explicit frames (bytes as hex) ---- *)
  | ["mload"; mem; off] ->
    let mm = zb mem in
    (match op_MLOAD mm (zs off) with Ok v -> "ok " ^ hz v | Err _ -> "err" | Panic -> "panic") ^ " s=" ^ hz (spec_MLOAD mm (zs off))
  | ["mstore"; mem; off; v] ->
    let mm = zb mem in
    show_mem (op_MSTORE mm (zs off) (zs v)) ^ " s=" ^ hex_of_zbytes (spec_MSTORE mm (zs off) (zs v))
  | ["mstore8"; mem; off; v] ->
    let mm = zb mem in
    show_mem (op_MSTORE8 mm (zs off) (zs v)) ^ " s=" ^ hex_of_zbytes (spec_MSTORE8 mm (zs off) (zs v))
  | ["cdload"; input; i] -> hz (op_CALLDATALOAD (zb input) (zs i)) ^ " s=" ^ hz (spec_CALLDATALOAD (zb input) (zs i))
  | ["datacopy"; mem; data; mo; dof; len] ->
    show_mem (op_DATACOPY (zb mem) (zb data) (zs mo) (zs dof) (zs len))
    ^ " s=" ^ (if small (zs len) then hex_of_zbytes (spec_DATACOPY (zb mem) (zb data) (zs mo) (zs dof) (zs len)) else "skip")
  | ["rdcopy"; mem; rd; mo; dof; len] -> show_mem (op_RETURNDATACOPY (zb mem) (zb rd) (zs mo) (zs dof) (zs len))
  | ["push"; code; pc; n] ->
    let (v, pc') = op_PUSH (zb code) (zs pc) (zs n) (zs n) in
    hz v ^ " " ^ hz pc' ^ " s=" ^ hz (spec_PUSH (zs n) (zb code) (zs pc))
  | "dup" :: n :: st ->
    let s = List.map zs st in
    show_stack (op_DUP (zs n) s) ^ " s=" ^ String.concat "," (List.map hz (spec_DUP (nat_of_int (int_of_z (zs n))) s))
  | "swap" :: n :: st ->
    let s = List.map zs st in
    show_stack (op_SWAP (zs n) s) ^ " s=" ^ String.concat "," (List.map hz (spec_SWAP (nat_of_int (int_of_z (zs n))) s))
  | ["jump"; code; pos] -> show_one (op_JUMP (zb code) (zs pos))
  | ["jumpi"; code; pc; pos; cond] -> show_one (op_JUMPI (zb code) (zs pc) (zs pos) (zs cond))
  (* ---- second wave: SHA3, environment, state-dependent gas, rules ---- *)
  | ["sha3"; mem; off; len] ->
    let mm = zb mem in
    show_one (op_SHA3 mm (zs off) (zs len)) ^ " s=" ^ (if small (zs len) then hz (spec_SHA3 keccakZ mm (zs off) (zs len)) else "skip")
  | ["keccak"; data] -> hex_of_zbytes (keccakZ (zb data))
  | ["env"; op; a; cl; cv; o; gp; cb; t; n; d; gl; input; code; ret; mem; pc; gas] ->
    let e = { e_address = zs a; e_caller = zs cl; e_callvalue = zs cv; e_origin = zs o; e_gasprice = zs gp;
              e_coinbase = zs cb; e_time = zs t; e_number = zs n; e_difficulty = zs d; e_gaslimit = zs gl } in
    let sh = function Some v -> "ok " ^ hz v | None -> "none" in
    sh (op_ENV (zs op) e (zb input) (zb code) (zb ret) (zb mem) (zs pc) (zs gas))
    ^ " s=" ^ sh (spec_ENV (zs op) (zs a) (zs o) (zs cl) (zs cv) (zs gp) (zb input) (zb code) (zb ret) (zs cb) (zs t) (zs n) (zs d) (zs gl)
                    (zs pc) (n_to_z_len (zb mem)) (zs gas))
  | ["sstore"; cur; y] ->
    let (g, r) = gasSStore (zs cur) (zs y) in
    hz g ^ " " ^ hz r ^ " s=" ^ hz (c_sstore (zs cur) (zs y)) ^ " " ^ hz (r_sstore (zs cur) (zs y))
  | ["gascall"; kind; gt; e158; value; empty; exist; memlen; last; ms; avail; cost] ->
    let g = gtf_of gt and b = bool_of in
    let ml = zs memlen and la = zs last and m = zs ms and av = zs avail and co = zs cost and va = zs value in
    let r = (match kind with
      | "call" -> gasCall g (b e158) va (b empty) (b exist) ml la m av co
      | "callcode" -> gasCallCode g va ml la m av co
      | "delegate" -> gasDelegateCall g ml la m av co
      | "static" -> gasStaticCall g ml la m av co
      | _ -> failwith "kind") in
    let extra = (match kind with
      | "call" -> c_extra g.gf_Calls (b e158) va (b empty) (b exist)
      | "callcode" -> Z.add g.gf_Calls (c_xfer va)
      | _ -> g.gf_Calls) in
    let w0 = Z.div ml (zs "32") in
    let w1 = Z.max w0 (ceil32 m) in
    let fee = Z.sub (cmem w1) (cmem w0) in
    (match r with Ok ((a, t), l) -> "ok " ^ hz a ^ " " ^ hz t ^ " " ^ hz l | Err _ -> "err" | Panic -> "panic")
    ^ " s=" ^ hz (c_call extra fee av co) ^ " " ^ hz (c_gascap av (Z.add extra fee) co) ^ " " ^ hz (Z.add extra fee)
  | ["suicide"; gt; e150; e158; empty; exist; bal; already] ->
    let g = gtf_of gt and b = bool_of in
    let (gas, r) = gasSuicide g (b e150) (b e158) (b empty) (b exist) (b bal) (b already) in
    hz gas ^ " " ^ hz r ^ " s=" ^ hz (c_selfdestruct g.gf_Suicide g.gf_CreateBySuicide (b e150) (b e158) (b empty) (b exist) (b bal))
    ^ " " ^ hz (r_selfdestruct (b already))
  | ["gtlookup"; gt] -> let g = gtf_of gt in hz (gasBalance g) ^ " " ^ hz (gasExtCodeSize g) ^ " " ^ hz (gasSLoad g)
  | ["enforce"; byz; ro; wr; ic; value] ->
    string_of_bool_ (enforceRestrictions (bool_of byz) (bool_of ro) (bool_of wr) (bool_of ic) (zs value))
  | ["rules"; hs; e150; e155; e158; byz; num] ->
    let r = select_rules { rc_homestead = opt_of hs; rc_eip150 = opt_of e150; rc_eip155 = opt_of e155; rc_eip158 = opt_of e158;
                           rc_byzantium = opt_of byz } (zs num) in
    String.concat " " (List.map string_of_bool_ [r.r_homestead; r.r_eip150; r.r_eip155; r.r_eip158; r.r_byzantium])
  (* ---- third wave ---- *)
  | ["blockhash"; number; num] ->
    let tag = Z.pow (zs "2") (zs "255") in
    let gh n = Z.add tag n in
    let sh v = (match v with Z0 -> "0x0" | _ -> "hash " ^ hz (Z.sub v tag)) in
    sh (op_BLOCKHASH gh (zs number) (zs num)) ^ " s=" ^ sh (spec_BLOCKHASH gh (zs number) (zs num))
  | ["memcall"; io; is; ro; rs] -> show_one (run_memorySize (memoryCall (zs io) (zs is) (zs ro) (zs rs)))
  (* ---- fourth wave: a whole memory step (memory size, gas, resize, instruction body), any operands ---- *)
  | "memrun" :: kind :: avail :: mem :: last :: args ->
    let mm = zb mem and la = zs last and av = zs avail in
    let sh3 = function Ok ((m, g), l) -> "ok " ^ hex_of_zbytes m ^ " " ^ hz g ^ " " ^ hz l | Err _ -> "err" | Panic -> "panic" in
    let sh4v = function Ok (((v, m), g), l) -> "ok " ^ hz v ^ " " ^ hex_of_zbytes m ^ " " ^ hz g ^ " " ^ hz l | Err _ -> "err" | Panic -> "panic" in
    let sh4d = function Ok (((d, m), g), l) -> "ok " ^ hex_of_zbytes d ^ " " ^ hex_of_zbytes m ^ " " ^ hz g ^ " " ^ hz l | Err _ -> "err" | Panic -> "panic" in
    (match kind, args with
     | "mload", [off] -> sh4v (run_MLOAD av mm la (zs off))
     | "mstore", [off; v] -> sh3 (run_MSTORE av mm la (zs off) (zs v))
     | "mstore8", [off; v] -> sh3 (run_MSTORE8 av mm la (zs off) (zs v))
     | "datacopy", [data; mo; dof; len] -> sh3 (run_DATACOPY av mm la (zb data) (zs mo) (zs dof) (zs len))
     | "rdcopy", [rd; mo; dof; len] -> sh3 (run_RETURNDATACOPY av mm la (zb rd) (zs mo) (zs dof) (zs len))
     | "sha3", [off; len] -> sh4v (run_SHA3 keccakZ av mm la (zs off) (zs len))
     | "return", [off; len] -> sh4d (run_RETURN av mm la (zs off) (zs len))
     | "log", [n; off; len] -> sh4d (run_LOG (zs n) av mm la (zs off) (zs len))
     | _ -> "driver-error memrun")
  (* a straight-line sequence on values: p:<const> pushes, o:<opcode> is an arithmetic op, DUPn, SWAPn or POP *)
  | "seq" :: items ->
    let step st item =
      match st with
      | None -> None
      | Some s ->
        let tag = String.sub item 0 2 and v = String.sub item 2 (String.length item - 2) in
        if tag = "p:" then Some (zs v :: s)
        else begin
          let o = int_of_z (zs v) in
          let r =
            if o >= 0x80 && o <= 0x8f then op_DUP (z_of_int (o - 0x7f)) s
            else if o >= 0x90 && o <= 0x9f then op_SWAP (z_of_int (o - 0x8f)) s
            else if o = 0x50 then op_POP s
            else exec_arith (zs v) s in
          (match r with Ok s' -> Some s' | _ -> None)
        end in
    (match List.fold_left step (Some []) items with
     | Some s -> "ok " ^ String.concat "," (List.map hz s)
     | None -> "err")
  | _ -> "driver-error unknown-command"

let () = self_test b2n; serve handle
