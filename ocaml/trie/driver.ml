(* modelrun for the trie area (property C10): one request per line, one answer per line. *)
open Model
open Vh

let hx (b : byte list) : string = let s = hex_of_bytes b in String.sub s 2 (String.length s - 2)

let render_flag (f : flag) : string =
  (match f.fhash with Some h -> "h" ^ hx h | None -> "-") ^ "g" ^ string_of_int (int_of_n f.fgen)
  ^ "d" ^ (if f.fdirty then "1" else "0")

let rec render (n : node) : string =
  match n with
  | NNil -> "N"
  | NVal v -> "V" ^ hx v
  | NHash h -> "H" ^ hx h
  | NShort (k, c, f) -> "S(" ^ hx k ^ "," ^ render c ^ "," ^ render_flag f ^ ")"
  | NFull (cs, f) -> "F(" ^ String.concat "," (List.map render cs) ^ "," ^ render_flag f ^ ")"

let fail_name (r : 'a res) : string =
  match r with Ok _ -> "ok" | Err -> "err" | Missing -> "missing" | Panic -> "panic" | OutOfFuel -> "fuel"

let render_verify (r : byte list option res) : string =
  match r with
  | Ok (Some v) -> "v:" ^ hex_of_bytes v
  | Ok None -> "absent"
  | e -> fail_name e

let render_obs (o : obs) : string =
  match o with
  | ODone -> "ok"
  | OVal (Some v) -> "v:" ^ hex_of_bytes v
  | OVal None -> "v:0x"
  | ORoot h -> "r:" ^ hex_of_bytes h
  | OList l -> "i:" ^ String.concat "," (List.map (fun (k, v) -> hx k ^ "=" ^ hx v) l)
  | OProof (p, v) ->
    let encs = List.sort compare (List.map (fun (_, e) -> hx e) p) in
    "p:" ^ String.concat "," encs ^ "|" ^ render_verify v
  | OErr -> "err" | OMissing -> "missing" | OPanic -> "panic" | OFuel -> "fuel"

let parse_op (t : string) : op option =
  match String.split_on_char ':' t with
  | ["u"; k; v] -> Some (OpUpdate (bytes_of_hex k, bytes_of_hex v))
  | ["d"; k] -> Some (OpDelete (bytes_of_hex k))
  | ["g"; k] -> Some (OpGet (bytes_of_hex k))
  | ["h"] -> Some OpHash
  | ["c"] -> Some OpCommit
  | ["r"; r] -> Some (OpReopen (bytes_of_hex r))
  | ["l"; n] -> Some (OpLimit (n_of_string n))
  | ["i"] -> Some OpIterate
  | ["p"; k] -> Some (OpProve (bytes_of_hex k))
  | ["x"] -> None
  | _ -> failwith ("bad op " ^ t)

let parse_content (s : string) : (byte list * byte list) list =
  if s = "-" then [] else
  List.map (fun kv -> match String.split_on_char '=' kv with
                      | [k; v] -> (bytes_of_hex k, bytes_of_hex v)
                      | _ -> failwith "bad content") (String.split_on_char ',' s)

let run_plain (ops : string list) : state =
  let st = ref init_state in
  List.iter (fun t -> match parse_op t with
    | Some o -> let (s', _) = k_step !st o in st := s'
    | None -> ()) ops;
  !st

let handle (toks : string list) : string =
  match toks with
  | ["keccak"; h] -> hex_of_bytes (keccak256 (bytes_of_hex h))
  | "run" :: ops ->
    let st = ref init_state in
    let outs = List.map (fun t ->
      match parse_op t with
      | Some o -> let (s', ob) = k_step !st o in st := s'; render_obs ob
      | None -> let tr = (!st).strie in
                "x:" ^ string_of_int (int_of_n tr.tgen) ^ "/" ^ string_of_int (int_of_n tr.tlimit) ^ "/" ^ render tr.troot) ops in
    String.concat ";" outs
  | "srun" :: ops ->
    let st = ref sec_init in
    let outs = List.map (fun t ->
      let o = match String.split_on_char ':' t with
        | ["u"; k; v] -> SUpdate (bytes_of_hex k, bytes_of_hex v)
        | ["d"; k] -> SDelete (bytes_of_hex k)
        | ["g"; k] -> SGet (bytes_of_hex k)
        | ["k"; hk] -> SGetKey (bytes_of_hex hk)
        | ["h"] -> SHash
        | ["c"] -> SCommit
        | ["r"; r; l] -> SReopen (bytes_of_hex r, n_of_string l)
        | _ -> failwith ("bad sop " ^ t) in
      let (s', ob) = k_sec_step !st o in st := s'; render_obs ob) ops in
    String.concat ";" outs
  | ["dsha"; items] ->
    let l = if items = "-" then [] else List.map bytes_of_hex (String.split_on_char ',' items) in
    (match k_derive_sha l with Ok r -> hex_of_bytes r | e -> fail_name e)
  | "iterfrom" :: start :: ops ->
    let st = run_plain ops in
    (match k_iterate_from st.strie st.sdb (bytes_of_hex start) (nat_of_int 4000) with
     | Ok (l, _) -> "i:" ^ String.concat "," (List.map (fun (k, v) -> hx k ^ "=" ^ hx v) l)
     | e -> fail_name e)
  | "niter" :: start :: flags :: ops ->
    (* NodeIterator protocol: build the trie by ops, t.NodeIterator(start), then Next(descend) per flag *)
    let st = run_plain ops in
    (match k_trie_hash st.strie with
     | Ok (rh, t') ->
       let fuel = nat_of_int 4000 in
       let it = ref (k_it_new fuel st.sdb t'.tgen rh t'.troot (bytes_of_hex start)) in
       let show moved =
         let i = !it in
         let leaf = it_leaf i in
         (if moved then "T" else "F") ^ "," ^ hx i.it_path ^ "," ^ hx (it_hash i) ^ "," ^ hx (it_parent i) ^ ","
         ^ (if leaf then (match it_leaf_key i, it_leaf_blob i with
                          | Ok k, Ok v -> "L" ^ hx k ^ "=" ^ hx v | _, _ -> "Lpanic") else "-")
         ^ "," ^ (match it_error i with ENone -> "ok" | EMissing -> "missing" | EPanic -> "panic" | EFuel -> "fuel" | _ -> "?") in
       let outs = ref [] in
       String.iter (fun c ->
         let (moved, it') = k_it_next fuel st.sdb t'.tgen rh t'.troot !it (c = '1') in
         it := it'; outs := show moved :: !outs) flags;
       String.concat ";" (List.rev !outs)
     | e -> fail_name e)
  | ["dbcommit"; limit; root; mem; pre; disk] ->
    (* Database.Commit(root) over a dumped memory layer / preimages / disk; answer: keys left in memory | disk as key:len *)
    let split s = if s = "-" then [] else String.split_on_char ',' s in
    let m = List.map (fun e -> match String.split_on_char ':' e with
      | [h; b; cs] -> (bytes_of_hex h, { mn_blob = bytes_of_hex b;
                        mn_children = (if cs = "" then [] else List.map bytes_of_hex (String.split_on_char '+' cs)) })
      | _ -> failwith "bad mem entry") (split mem) in
    let kvl s = List.map (fun e -> match String.split_on_char ':' e with
      | [k; v] -> (bytes_of_hex k, bytes_of_hex v) | _ -> failwith "bad kv") (split s) in
    (match tdb_commit (nat_of_int 2000) (n_of_string limit) m (kvl pre) (kvl disk) (bytes_of_hex root) with
     | Ok (m', d') ->
       let mk = List.sort compare (List.map (fun (k, _) -> hx k) m') in
       let dk = List.sort compare (List.map (fun (k, v) -> hx k ^ ":" ^ string_of_int (List.length v)) d') in
       "ok mem=" ^ String.concat "," mk ^ "|disk=" ^ String.concat "," dk
     | e -> fail_name e)
  | ["mptroot"; c] -> hex_of_bytes (k_mpt_root (parse_content c))
  | ["verify"; root; key; nodes] ->
    let ns = if nodes = "-" then [] else List.map bytes_of_hex (String.split_on_char ',' nodes) in
    render_verify (k_verify (bytes_of_hex root) (bytes_of_hex key) ns)
  | ["decode"; h; buf] ->
    (match k_decode (if h = "-" then None else Some (bytes_of_hex h)) (bytes_of_hex buf) with
     | Ok n -> "ok " ^ render n
     | e -> fail_name e)
  | ["compact"; h] -> hex_of_bytes (hex_to_compact (bytes_of_hex h))
  | ["uncompact"; h] -> "ok " ^ hex_of_bytes (compact_to_hex (bytes_of_hex h))
  | ["keyhex"; h] -> hex_of_bytes (keybytes_to_hex (bytes_of_hex h))
  | _ -> "driver-error unknown-command"

let () = self_test b2n; serve handle
