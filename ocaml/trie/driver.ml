(* modelrun for the trie area (property C10): one request per line, one answer per line. *)
open Model
open Vh

let hx (b : byte list) : string = let s = hex_of_bytes b in String.sub s 2 (String.length s - 2)

let render_flag (f : flag) : string =
  (match f.fhash with Some h -> "h" ^ hx h | None -> "-") ^ "g" ^ string_of_int (int_of_n f.fgen)
  ^ "d" ^ (if f.fdirty then "1" else "0")

let rec render (n : node) : string =
  match n with
  | NNil -> "N"
  | NVal v -> "V" ^ hx v
  | NHash h -> "H" ^ hx h
  | NShort (k, c, f) -> "S(" ^ hx k ^ "," ^ render c ^ "," ^ render_flag f ^ ")"
  | NFull (cs, f) -> "F(" ^ String.concat "," (List.map render cs) ^ "," ^ render_flag f ^ ")"

let fail_name (r : 'a res) : string =
  match r with Ok _ -> "ok" | Err -> "err" | Missing -> "missing" | Panic -> "panic" | OutOfFuel -> "fuel"

let render_verify (r : byte list option res) : string =
  match r with
  | Ok (Some v) -> "v:" ^ hex_of_bytes v
  | Ok None -> "absent"
  | e -> fail_name e

let render_obs (o : obs) : string =
  match o with
  | ODone -> "ok"
  | OVal (Some v) -> "v:" ^ hex_of_bytes v
  | OVal None -> "v:0x"
  | ORoot h -> "r:" ^ hex_of_bytes h
  | OList l -> "i:" ^ String.concat "," (List.map (fun (k, v) -> hx k ^ "=" ^ hx v) l)
  | OProof (p, v) ->
    let encs = List.sort compare (List.map (fun (_, e) -> hx e) p) in
    "p:" ^ String.concat "," encs ^ "|" ^ render_verify v
  | OErr -> "err" | OMissing -> "missing" | OPanic -> "panic" | OFuel -> "fuel"

let parse_op (t : string) : op option =
  match String.split_on_char ':' t with
  | ["u"; k; v] -> Some (OpUpdate (bytes_of_hex k, bytes_of_hex v))
  | ["d"; k] -> Some (OpDelete (bytes_of_hex k))
  | ["g"; k] -> Some (OpGet (bytes_of_hex k))
  | ["h"] -> Some OpHash
  | ["c"] -> Some OpCommit
  | ["r"; r] -> Some (OpReopen (bytes_of_hex r))
  | ["l"; n] -> Some (OpLimit (n_of_string n))
  | ["i"] -> Some OpIterate
  | ["p"; k] -> Some (OpProve (bytes_of_hex k))
  | ["x"] -> None
  | _ -> failwith ("bad op " ^ t)

let parse_content (s : string) : (byte list * byte list) list =
  if s = "-" then [] else
  List.map (fun kv -> match String.split_on_char '=' kv with
                      | [k; v] -> (bytes_of_hex k, bytes_of_hex v)
                      | _ -> failwith "bad content") (String.split_on_char ',' s)

let handle (toks : string list) : string =
  match toks with
  | ["keccak"; h] -> hex_of_bytes (keccak256 (bytes_of_hex h))
  | "run" :: ops ->
    let st = ref init_state in
    let outs = List.map (fun t ->
      match parse_op t with
      | Some o -> let (s', ob) = k_step !st o in st := s'; render_obs ob
      | None -> let tr = (!st).strie in
                "x:" ^ string_of_int (int_of_n tr.tgen) ^ "/" ^ string_of_int (int_of_n tr.tlimit) ^ "/" ^ render tr.troot) ops in
    String.concat ";" outs
  | ["mptroot"; c] -> hex_of_bytes (k_mpt_root (parse_content c))
  | ["verify"; root; key; nodes] ->
    let ns = if nodes = "-" then [] else List.map bytes_of_hex (String.split_on_char ',' nodes) in
    render_verify (k_verify (bytes_of_hex root) (bytes_of_hex key) ns)
  | ["decode"; h; buf] ->
    (match k_decode (if h = "-" then None else Some (bytes_of_hex h)) (bytes_of_hex buf) with
     | Ok n -> "ok " ^ render n
     | e -> fail_name e)
  | ["compact"; h] -> hex_of_bytes (hex_to_compact (bytes_of_hex h))
  | ["uncompact"; h] -> "ok " ^ hex_of_bytes (compact_to_hex (bytes_of_hex h))
  | ["keyhex"; h] -> hex_of_bytes (keybytes_to_hex (bytes_of_hex h))
  | _ -> "driver-error unknown-command"

let () = self_test b2n; serve handle
