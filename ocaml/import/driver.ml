(* modelrun for the import area (property C01): one request per line, one answer per line.
   Lists are comma separated, "_" is the empty list, bytes are 0x-hex ("0x" = empty).
     keccak HEX
     derive ITEMS                      -> ok ROOT        (DeriveSha; spec root cross-checked with the code-shaped trie)
     unclehash HDRS                    -> ok HASH        (HDRS = header RLPs)
     receipts RS                       -> ok ROOT BLOOM  (RS = post:cumulative:logs ,...; logs = addr/topics/data ;...; topics = t|t)
     import HDR TXS UNCLES err         -> rejected REASON | accepted ROOT USED
     import HDR TXS UNCLES ok ROOT RS  -> (RS = post:gasused:logs per transaction, from the real StateProcessor; ROOT = its IntermediateRoot)
     stateroot ACCTS                   -> ok ROOT        (ACCTS = addr:nonce:balance:storageroot:codehash ,...; IntermediateRoot of the composed model)
     build HDR CANDS UNCLES TXGAS ROOT ORACLE -> ok HEADERRLP NTX USED
                                          (ORACLE = per candidate `skip` or post:gasused:logs) *)
open Model
open Vh

(* Keccak-256 of the model, memoised (trusted glue: a table in front of the extracted function) *)
let memo : (bytes, bytes) Hashtbl.t = Hashtbl.create 4096
let kh (x : bytes) : bytes =
  match Hashtbl.find_opt memo x with
  | Some y -> y
  | None -> let y = keccak256 x in
    if Hashtbl.length memo > 200000 then Hashtbl.reset memo;
    Hashtbl.add memo x y; y

let list_of (s : string) : string list = if s = "_" then [] else String.split_on_char ',' s

let parse_log (s : string) : log =
  match String.split_on_char '/' s with
  | [a; t; d] ->
    { l_addr = bytes_of_hex a;
      l_topics = (if t = "_" then [] else List.map bytes_of_hex (String.split_on_char '|' t));
      l_data = bytes_of_hex d; l_tag = N0 }
  | _ -> failwith "parse log"

let parse_logs (s : string) : log list =
  if s = "_" then [] else List.map parse_log (String.split_on_char ';' s)

(* post:num:logs *)
let parse_triple (s : string) : bytes * n * log list =
  match String.split_on_char ':' s with
  | [p; c; l] -> (bytes_of_hex p, n_of_string c, parse_logs l)
  | _ -> failwith "parse receipt"

let parse_receipt (s : string) : receipt =
  let (p, c, l) = parse_triple s in { r_post = p; r_cumulative = c; r_logs = l }

let parse_header (s : string) : header =
  match decode_exact (bytes_of_hex s) with
  | Some it -> (match header_of_item it with Some h -> h | None -> failwith "header shape")
  | None -> failwith "header rlp"

let reason = function
  | RejHeader -> "header" | RejUnknownAncestor -> "unknown-ancestor" | RejUncles -> "uncles"
  | RejUncleHash -> "uncle-hash" | RejTxRoot -> "tx-root" | RejProcess -> "process"
  | RejGasUsed -> "gas-used" | RejBloom -> "bloom" | RejReceiptRoot -> "receipt-root"
  | RejStateRoot -> "state-root"

let bloom_hex (b : n) : string = hex_of_bytes (bloom_bytes b)

let derive (items : bytes list) : string =
  let spec = derive_sha kh items in
  match k_derive_sha_code items with
  | Some code when code = spec -> "ok " ^ hex_of_bytes spec
  | Some code -> "driver-error spec-code-mismatch spec=" ^ hex_of_bytes spec ^ " code=" ^ hex_of_bytes code
  | None -> "driver-error code-trie-failed spec=" ^ hex_of_bytes spec

(* the execution layer as an oracle: a state is the number of transactions applied so
   far (-1 after Finalize); apply_msg reads the recorded result *)
let no_start () _ s = s
let fin () _ _ _ = -1

let handle (toks : string list) : string =
  match toks with
  | ["keccak"; h] -> hex_of_bytes (keccak256 (bytes_of_hex h))
  | ["derive"; l] -> derive (List.map bytes_of_hex (list_of l))
  | ["unclehash"; l] -> "ok " ^ hex_of_bytes (calc_uncle_hash kh (List.map parse_header (list_of l)))
  | ["receipts"; l] ->
    let rs = List.map parse_receipt (list_of l) in
    let root = receipts_root kh rs in
    (match k_derive_sha_code (List.map (receipt_rlp kh) rs) with
     | Some code when code = root -> "ok " ^ hex_of_bytes root ^ " " ^ bloom_hex (receipts_bloom kh rs)
     | _ -> "driver-error spec-code-mismatch")
  | ["uncles"; hf5; ancs; cands; bh] ->
    (* ANCS = hash/u1|u2 ,... (from the parent back; "_" uncles = none); CANDS = hash/parent ,... in the
       order the map iteration is assumed to take; BH = hash of the block built.
       -> picked=<hashes|none> bad=<n> verify=<ok|err> *)
    let anc (s : string) = (match String.split_on_char '/' s with
      | [h; u] -> { a_hash = bytes_of_hex h; a_uncles = (if u = "_" then [] else List.map bytes_of_hex (String.split_on_char '|' u)) }
      | _ -> failwith "parse anc") in
    let cnd (s : string) = (match String.split_on_char '/' s with
      | [h; p] -> { c_hash = bytes_of_hex h; c_parent = bytes_of_hex p }
      | _ -> failwith "parse cand") in
    let al = List.map anc (list_of ancs) in
    let (picked, bad) = select_uncles al (List.map cnd (list_of cands)) [] [] [] in
    let parent = (match al with a :: _ -> a.a_hash | [] -> []) in
    let v = (match verify_uncles_struct (hf5 = "1") al (bytes_of_hex bh) parent picked with
      | None -> "ok" | Some VTooMany -> "too-many" | Some VDuplicate -> "duplicate" | Some VIsAncestor -> "ancestor" | Some VDangling -> "dangling") in
    "picked=" ^ (if picked = [] then "none" else String.concat "," (List.map (fun c -> hex_of_bytes c.c_hash) picked))
    ^ " bad=" ^ string_of_int (List.length bad) ^ " verify=" ^ v
  | ["stateroot"; l] ->
    (* accounts addr:nonce:balance:storageroot:codehash in the order sent; the root must not depend
       on the order in which they are fed to the trie: computed as sent and reversed *)
    let acct (s : string) =
      (match String.split_on_char ':' s with
       | [a; nn; b; r; ch] -> (n_of_string a, { bal = z_of_string b; nonce = n_of_string nn; code = n_of_string ch; stor = n_of_string r })
       | _ -> failwith "parse account") in
    let st = List.map acct (list_of l) in
    let r1 = tx_state_root kh (fun x -> x) st in
    let r2 = tx_state_root kh List.rev st in
    if r1 = r2 then "ok " ^ hex_of_bytes r1 else "driver-error root-depends-on-order"
  | "import" :: hdr :: txs :: uncles :: proc ->
    let b = { b_header = parse_header hdr; b_txs = List.map bytes_of_hex (list_of txs);
              b_uncles = List.map parse_header (list_of uncles) } in
    let (table, root) =
      (match proc with
       | ["err"] -> (None, [])
       | ["ok"; root; rs] -> (Some (Array.of_list (List.map parse_triple (list_of rs))), bytes_of_hex root)
       | _ -> failwith "import: bad oracle") in
    let apply_msg () _ idx (s : int) pool _tx =
      (match table with
       | None -> None
       | Some t ->
         let i = int_of_n idx in
         if i >= Array.length t then None
         else let (post, gas, logs) = t.(i) in
           Some { mr_state = s + 1; mr_pool = N.sub pool gas; mr_gas = gas; mr_post = post; mr_logs = logs }) in
    let root_of () _ = root in
    (match import_block kh apply_msg no_start fin root_of () 0 b with
     | Accepted r -> "accepted " ^ hex_of_bytes r.res_root ^ " " ^ string_of_int (int_of_n r.res_used)
     | Rejected w -> "rejected " ^ reason w)
  | ["build"; hdr; cands; uncles; txgas; root; oracle] ->
    let h = parse_header hdr in
    (* the builder's template: the Go header with every commitment blanked *)
    let tmpl = { h with h_uncle_hash = []; h_root = []; h_tx_hash = []; h_receipt_hash = [];
                        h_bloom = N0; h_gas_used = N0 } in
    let cl = List.map bytes_of_hex (list_of cands) in
    let ol = list_of oracle in
    if List.length cl <> List.length ol then failwith "build: oracle length";
    let table = List.combine cl (List.map (fun s -> if s = "skip" then None else Some (parse_triple s)) ol) in
    let apply_msg () _ _idx (s : int) pool tx =
      (match List.assoc_opt tx table with
       | Some (Some (post, gas, logs)) ->
         Some { mr_state = s + 1; mr_pool = N.sub pool gas; mr_gas = gas; mr_post = post; mr_logs = logs }
       | _ -> None) in
    let rootb = bytes_of_hex root in
    let root_of () _ = rootb in
    let (b, r) = build_block kh apply_msg no_start fin root_of (n_of_string txgas) () 0 tmpl cl
                   (List.map parse_header (list_of uncles)) in
    "ok " ^ hex_of_bytes (encode (header_item b.b_header)) ^ " " ^ string_of_int (List.length b.b_txs)
    ^ " " ^ string_of_int (int_of_n r.res_used)
  | _ -> "driver-error unknown-command"

let () = self_test b2n; serve handle
