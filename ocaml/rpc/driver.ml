(* modelrun for the rpc area (property C18): one request per line, one answer per line.
   Requests (tokens separated by blanks; names never contain blanks):
     exposed CHAIN FLAGS TRANSPORT HTTPMODS WSMODS EXPOSEALL
         CHAIN     aquahash | clique   (which generated API list: gen_apis / gen_apis_clique)
         FLAGS     five 0/1 characters: UNSAFE_RPC_SIGNING, UNSAFE_ALLOW_SIGN_IPC, UNSAFE_RPC_SIGNING_HTTP,
                   UNSAFE_RPC_SIGNING_WS, UNSAFE_ALLOW_SIGN_INPROC
         TRANSPORT inproc | ipc | http | ws
         HTTPMODS / WSMODS  comma separated module names, "-" = empty list, "default" = node.NewDefaultConfig()
         EXPOSEALL 0 | 1
       -> "fail" | "ok modules=a,b,c methods=ns_wire|recv|sub|signs,..."   (both lists sorted)
     resolve CHAIN FLAGS TRANSPORT HTTPMODS WSMODS EXPOSEALL BATCH METHOD [FIRSTPARAM]
         BATCH 0 | 1 (element of a JSON array); METHOD the "method" member; FIRSTPARAM the first parameter if it is a string
       -> invalid | unsubscribe | notfound | callback ns_wire|recv|signs | subscription ns_wire|recv|signs | fail
     invoke node CHAIN FLAGS TRANSPORT HTTPMODS WSMODS EXPOSEALL BATCH REQ...
     invoke toy FLAGS CALLER N API1 .. APIN BATCH REQ...     (API as in regseq, methods may carry "=pn.." argument flags)
         REQ = HEXMETHOD;IDOK;PARAMS   PARAMS = A (absent) | N (null) | O (scalar/object) | L[elem,elem..]
         elem = S<hex>d|x (string) | Zd|x (null) | Od|x (other); d = decodes into the Go type at its position, x = does not
       -> BATCH=0: one verdict; BATCH=1: "rejected" or one verdict per REQ separated by blanks
          verdict = invalidrequest | notfound | invalidparams | unsubscribe | invoked:ns_wire|recv
     envbool unset | HEX        -> 0 | 1          (sense.EnvBool on that value)
     protected NAME             -> 0 | 1          (isProtectedMethodName)
     allowed FLAGS CALLER       -> 0 | 1          (is_allowed: RegisterName's caller-name test)
     regseq FLAGS CALLER API...  each API = ns:recv:M1,M2,...  (callbacks only, exported receiver)
         -> the callbacks registered after rpc.NewServer() followed by RegisterName(ns, recv) for each API in
            order, all called from function CALLER: "ns_wire|recv,..." sorted, the rpc metadata service left out;
            "fail" if a RegisterName returns an error *)
open Model
open Vh

let b_of_s (s : String.t) : byte list = List.init (String.length s) (fun i -> byte_of_int (Char.code s.[i]))
let s_of_b (l : byte list) : String.t = String.concat "" (List.map (fun b -> String.make 1 (Char.chr (int_of_byte b))) l)

let flags_of (s : String.t) : flags =
  if String.length s <> 5 then failwith "flags";
  let b i = s.[i] = '1' in
  { f_all = b 0; f_ipc = b 1; f_http = b 2; f_ws = b 3; f_inproc = b 4 }

let transport_of = function
  | "inproc" -> InProc | "ipc" -> IPC | "http" -> HTTP | "ws" -> WS | _ -> failwith "transport"

let mods_of (dflt : bytes list) (s : String.t) : bytes list =
  if s = "-" then [] else if s = "default" then dflt else List.map b_of_s (split_on ',' s)

let bit b = if b then "1" else "0"

let reg_cache : (String.t, registry option) Hashtbl.t = Hashtbl.create 64
let exposed_cached chain fl tr hm wm ea =
  let key = String.concat " " [chain; fl; tr; hm; wm; ea] in
  match Hashtbl.find_opt reg_cache key with
  | Some r -> r
  | None ->
    let apis = (match chain with "aquahash" -> gen_apis | "clique" -> gen_apis_clique | _ -> failwith "chain") in
    let c = { c_http_modules = mods_of gen_default_config.c_http_modules hm;
              c_ws_modules = mods_of gen_default_config.c_ws_modules wm;
              c_ws_expose_all = (ea = "1") } in
    let r = gen_exposed (flags_of fl) (transport_of tr) c apis in
    Hashtbl.replace reg_cache key r; r

let show_entry e = s_of_b (wire_name e) ^ "|" ^ s_of_b e.e_recv ^ "|" ^ bit e.e_signs

let parse_api_spec spec =
  (match String.split_on_char ':' spec with
   | [ns; recv; ms] ->
     let named = List.map (fun n -> match String.split_on_char '=' n with
                                    | [nm] -> (nm, []) | [nm; fl] -> (nm, List.init (String.length fl) (fun i -> fl.[i] = 'p'))
                                    | _ -> failwith "method spec") (split_on ',' ms) in
     ({ a_ns = b_of_s ns; a_recv = b_of_s recv; a_exported = true; a_public = false;
        a_methods = List.map (fun (n, _) -> { m_name = b_of_s n; m_sub = false; m_signs = false }) named },
      List.map (fun (n, fl) -> ((recv, n), fl)) named)
   | _ -> failwith "api spec")

let parse_req tok =
  (match String.split_on_char ';' tok with
   | [hm; idok; ps] ->
     let elem e =
       let n = String.length e in
       if n < 2 then failwith "elem" else
       let dec = (e.[n-1] = 'd') in
       let kind = (match e.[0] with
                   | 'S' -> JStr (bytes_of_hex (String.sub e 1 (n - 2)))
                   | 'Z' -> JNullElem | 'O' -> JOtherElem | _ -> failwith "elem kind") in
       { j_kind = kind; j_decodes = dec } in
     let params = (match ps with
                   | "A" -> JAbsent | "N" -> JNull | "O" -> JScalarOrObject
                   | _ when String.length ps >= 1 && ps.[0] = 'L' ->
                     let body = String.sub ps 1 (String.length ps - 1) in
                     JArray (List.map elem (split_on ',' body))
                   | _ -> failwith "params") in
     { q_method = bytes_of_hex hm; q_id_ok = (idok = "1"); q_params = params }
   | _ -> failwith "req")

let show_verdict = function
  | VInvalidRequest -> "invalidrequest" | VNotFound -> "notfound" | VInvalidParams -> "invalidparams"
  | VUnsubscribe -> "unsubscribe"
  | VInvoked e -> "invoked:" ^ s_of_b (wire_name e) ^ "|" ^ s_of_b e.e_recv

let run_invoke r argtab batch reqs =
  if batch then
    (match invoke_batch r argtab reqs with
     | None -> "rejected"
     | Some vs -> String.concat " " (List.map show_verdict vs))
  else (match reqs with [q] -> show_verdict (invoke_single r argtab q) | _ -> failwith "single needs one request")

let handle (toks : String.t list) : String.t =
  match toks with
  | "invoke" :: "node" :: chain :: fl :: tr :: hm :: wm :: ea :: batch :: reqs ->
    (match exposed_cached chain fl tr hm wm ea with
     | None -> "fail"
     | Some r -> run_invoke r gen_argtab (batch = "1") (List.map parse_req reqs))
  | "invoke" :: "toy" :: fl :: caller :: n :: rest ->
    let n = int_of_string n in
    let specs = List.filteri (fun i _ -> i < n) rest in
    let tail = List.filteri (fun i _ -> i >= n) rest in
    (match tail with
     | batch :: reqs ->
       let parsed = List.map parse_api_spec specs in
       let tab = List.concat (List.map snd parsed) in
       let argtab e = (match List.assoc_opt (s_of_b e.e_recv, s_of_b e.e_go) tab with Some l -> l | None -> []) in
       let f = flags_of fl in
       let r0 = new_server f gen_callers.caller_newserver gen_meta_api in
       (match register_all f (b_of_s caller) r0 (List.map fst parsed) with
        | None -> "fail"
        | Some r -> run_invoke r argtab (batch = "1") (List.map parse_req reqs))
     | [] -> failwith "invoke toy")
  | "resolve" :: chain :: fl :: tr :: hm :: wm :: ea :: batch :: meth :: rest ->
    (match exposed_cached chain fl tr hm wm ea with
     | None -> "fail"
     | Some r ->
       let fp = (match rest with [] -> None | p :: _ -> Some (b_of_s p)) in
       (match resolve r (batch = "1") (b_of_s meth) fp with
        | RInvalid -> "invalid" | RUnsubscribe -> "unsubscribe" | RNotFound -> "notfound"
        | RCallback e -> "callback " ^ show_entry e
        | RSubscription e -> "subscription " ^ show_entry e))
  | ["exposed"; chain; fl; tr; hm; wm; ea] ->
    let apis = (match chain with "aquahash" -> gen_apis | "clique" -> gen_apis_clique | _ -> failwith "chain") in
    let c = { c_http_modules = mods_of gen_default_config.c_http_modules hm;
              c_ws_modules = mods_of gen_default_config.c_ws_modules wm;
              c_ws_expose_all = (ea = "1") } in
    (match gen_exposed (flags_of fl) (transport_of tr) c apis with
     | None -> "fail"
     | Some r ->
       let ms = List.map (fun e -> s_of_b (wire_name e) ^ "|" ^ s_of_b e.e_recv ^ "|" ^ bit e.e_sub ^ "|" ^ bit e.e_signs) r.r_entries in
       let mods = List.map s_of_b (modules r) in
       "ok modules=" ^ String.concat "," (List.sort compare mods) ^ " methods=" ^ String.concat "," (List.sort compare ms))
  | ["envbool"; "unset"] -> bit (env_bool None)
  | ["envbool"; h] -> bit (env_bool (Some (bytes_of_hex h)))
  | ["protected"; n] -> bit (is_protected (b_of_s n))
  | ["protected"] -> bit (is_protected [])
  | "regseq" :: fl :: caller :: specs ->
    let api_of spec =
      (match String.split_on_char ':' spec with
       | [ns; recv; ms] ->
         { a_ns = b_of_s ns; a_recv = b_of_s recv; a_exported = true; a_public = false;
           a_methods = List.map (fun n -> { m_name = b_of_s (List.hd (String.split_on_char '=' n)); m_sub = false; m_signs = false }) (split_on ',' ms) }
       | _ -> failwith "regseq api") in
    let f = flags_of fl in
    let r0 = new_server f gen_callers.caller_newserver gen_meta_api in
    (match register_all f (b_of_s caller) r0 (List.map api_of specs) with
     | None -> "fail"
     | Some r ->
       let meta = s_of_b gen_meta_api.a_ns in
       let ms = List.filter_map (fun e -> if s_of_b e.e_ns = meta || e.e_sub then None
                                           else Some (s_of_b (wire_name e) ^ "|" ^ s_of_b e.e_recv)) r.r_entries in
       String.concat "," (List.sort compare ms))
  | ["allowed"; fl; caller] -> bit (is_allowed (flags_of fl) (b_of_s caller))
  | _ -> "driver-error unknown-command"

let () = self_test b2n; serve handle
