(* modelrun for the chain area (C02, C03, C04): a stateful line protocol around
   the extracted Chain/Store.v.  Several chains (databases) can be open, each
   named by a session id.

   init    <sid> <ghash> <gdiff> <groot>
   insert  <sid> <coins> <blk>;<blk>...      blk = hash,parent,number,diff,root,valid,tx:tx:...   (no tx: "-")
   headers <sid> <coins> <hdr>;<hdr>...      hdr = hash,parent,number,diff,root
   sethead <sid> <n>
   reopen  <sid>
   rollback <sid> <hash,hash,...>            BlockChain.Rollback (hashes oldest first)
        -> "<status> <index>"    status = ok | err:<kind> | panic | fuel | nocoin | unmodelled
   obs     <sid> <maxheight> <hashes,...> <roots,...> <txs,...>
   log     <sid>                  -> the writes issued since the previous "log", in program order
   nlog    <sid>                  -> number of writes logged so far
   crash   <sid> <k>              -> open_db on the disk left by a crash after the first k writes
   coins = string of 0/1 ("-" = none), 1 meaning mrand.Float64() < 0.5 *)
open Model
open Vh

let sessions : (string, st ref) Hashtbl.t = Hashtbl.create 7
let geneses : (string, header) Hashtbl.t = Hashtbl.create 7
let reported : (string, int) Hashtbl.t = Hashtbl.create 7

let num s = n_of_string s
let dec (x : n) = string_of_int (int_of_n x)
let big (x : n) = hex_of_n x

let list_of sep s = if s = "-" || s = "" then [] else String.split_on_char sep s

let parse_header s =
  match String.split_on_char ',' s with
  | h :: p :: nn :: d :: r :: _ -> { h_hash = num h; h_parent = num p; h_number = num nn; h_diff = num d; h_root = num r }
  | _ -> failwith "bad header"
let parse_block s =
  match String.split_on_char ',' s with
  | [h; p; nn; d; r; v; txs] ->
    { b_hdr = { h_hash = num h; h_parent = num p; h_number = num nn; h_diff = num d; h_root = num r };
      b_txs = List.map num (list_of ':' txs); b_valid = (v = "1") }
  | _ -> failwith "bad block"
let parse_coins s = if s = "-" then [] else List.init (String.length s) (fun i -> s.[i] = '1')

let err_name = function
  | ErrUnknownAncestor -> "unknown-ancestor" | ErrInvalidBlock -> "invalid-block" | ErrStateMissing -> "state-missing"
  | ErrInvalidOldChain -> "invalid-old-chain" | ErrInvalidNewChain -> "invalid-new-chain"
  | ErrNonContiguous -> "non-contiguous" | ErrEmptyChain -> "empty-chain" | ErrNoGenesis -> "no-genesis"
let status_name = function
  | SOk -> "ok" | SErr e -> "err:" ^ err_name e | SPanic -> "panic" | SFuel -> "fuel" | SNoCoin -> "nocoin"
  | SUnmodelled -> "unmodelled"

let key_str = function
  | KCanon n -> "canon:" ^ dec n | KHashNum h -> "hn:" ^ dec h | KHeader h -> "hdr:" ^ dec h
  | KBody h -> "body:" ^ dec h | KReceipts h -> "rcpt:" ^ dec h | KTd h -> "td:" ^ dec h
  | KLookup t -> "lk:" ^ dec t | KState r -> "S" | KHeadBlock -> "HB" | KHeadHeader -> "HH" | KHeadFast -> "HF"
(* values are shown where they are small and decisive for C04 (pointers, numbers, td, lookups) *)
let val_str k v =
  match k, v with
  | KState _, _ -> ""
  | _, VHash h -> "=" ^ dec h
  | _, VNum n -> "=" ^ big n
  | _, VLookup (h, n, i) -> "=" ^ dec h ^ "/" ^ dec n ^ "/" ^ dec i
  | _, VTxs l -> "=" ^ string_of_int (List.length l)
  | _, VHeader hd -> "=" ^ dec hd.h_hash
  | _, VUnit -> ""
let put_str k v = match k with KState _ -> "S" | _ -> "P:" ^ key_str k ^ val_str k v
let wop_str = function
  | Put (k, v) -> put_str k v
  | Del k -> "D:" ^ key_str k
  | Batch l -> "B[" ^ String.concat "," (List.map (fun (k, ov) -> match ov with Some v -> put_str k v | None -> "D:" ^ key_str k) l) ^ "]"

let sess sid = try Hashtbl.find sessions sid with Not_found -> failwith ("no session " ^ sid)

let opt f = function None -> "-" | Some x -> f x
let triple ((h, n), i) = dec h ^ "/" ^ dec n ^ "/" ^ dec i

let observe (s : st) maxh hashes roots txs =
  let d = s.dsk in
  let b = Buffer.create 1024 in
  let add = Buffer.add_string b in
  add ("cb=" ^ dec (s_hash s.cur_block) ^ " ch=" ^ dec s.cur_header.h_hash ^ " cf=" ^ dec (s_hash s.cur_fast));
  add (" HB=" ^ dec (head_ptr d KHeadBlock) ^ " HH=" ^ dec (head_ptr d KHeadHeader) ^ " HF=" ^ dec (head_ptr d KHeadFast));
  add " canon=";
  for i = 0 to maxh do (if i > 0 then add ","); add (dec (canon d (n_of_int i))) done;
  add " blocks=";
  List.iteri (fun i h ->
      if i > 0 then add ",";
      add (dec h ^ ":" ^ opt big (td_of d h) ^ ":"
           ^ (if header_of d h <> None then "h" else "-") ^ (if body_of d h <> None then "b" else "-")
           ^ (if receipts_of d h <> None then "r" else "-") ^ (if number_of d h <> None then "n" else "-"))) hashes;
  add " states=";
  List.iteri (fun i r -> if i > 0 then add ","; add (dec r ^ ":" ^ (if has_state d r then "1" else "0"))) roots;
  add " txs=";
  List.iteri (fun i t ->
      if i > 0 then add ",";
      add (dec t ^ ":" ^ opt triple (lookup_of d t) ^ ":" ^ opt triple (get_transaction d t) ^ ":" ^ opt triple (get_receipt d t))) txs;
  Buffer.contents b

let finish sid (stt, idx, s') = (sess sid) := s'; status_name stt ^ " " ^ dec idx

let handle (toks : string list) : string =
  match toks with
  | ["init"; sid; gh; gd; gr] ->
    let g = { h_hash = num gh; h_parent = N0; h_number = N0; h_diff = num gd; h_root = num gr } in
    let s = init_state g in
    Hashtbl.replace sessions sid (ref s);
    Hashtbl.replace geneses sid g;
    Hashtbl.replace reported sid 0;
    "ok"
  | ["insert"; sid; cs; blks] ->
    let chain = List.map parse_block (list_of ';' blks) in
    finish sid (let ((a, b), c) = insert_chain chain (parse_coins cs) !(sess sid) in (a, b, c))
  | ["headers"; sid; cs; hdrs] ->
    let chain = List.map parse_header (list_of ';' hdrs) in
    finish sid (let ((a, b), c) = insert_header_chain chain (parse_coins cs) !(sess sid) in (a, b, c))
  | ["sethead"; sid; n] -> let (a, c) = set_head (num n) !(sess sid) in finish sid (a, N0, c)
  | ["reopen"; sid] -> let (a, c) = reopen !(sess sid) in finish sid (a, N0, c)
  | ["rollback"; sid; hs] -> let (a, c) = rollback (List.map num (list_of ',' hs)) !(sess sid) in finish sid (a, N0, c)
  | ["obs"; sid; maxh; hashes; roots; txs] ->
    observe !(sess sid) (int_of_string maxh) (List.map num (list_of ',' hashes)) (List.map num (list_of ',' roots)) (List.map num (list_of ',' txs))
  | ["log"; sid] ->
    let s = !(sess sid) in
    let all = log_of s in
    let seen = try Hashtbl.find reported sid with Not_found -> 0 in
    let rec drop k l = if k <= 0 then l else match l with [] -> [] | _ :: t -> drop (k - 1) t in
    let fresh = drop seen all in
    Hashtbl.replace reported sid (List.length all);
    if fresh = [] then "-" else String.concat " " (List.map wop_str fresh)
  | ["nlog"; sid] -> string_of_int (List.length (log_of !(sess sid)))
  | ["crash"; sid; k] ->
    (* C04: NewBlockChain on the disk a crash after the first k writes of this session leaves *)
    let g = Hashtbl.find geneses sid in
    let d = crash_disk (genesis_disk g) (log_of !(sess sid)) (nat_of_int (int_of_string k)) in
    let (stt, s') = open_db d in
    status_name stt ^ " head=" ^ dec (s_hash s'.cur_block) ^ " hdr=" ^ dec s'.cur_header.h_hash
    ^ " canon_at_head=" ^ dec (canon s'.dsk (s_num s'.cur_block))
  | _ -> "driver-error unknown-command"

let () = self_test b2n; serve handle
