(* modelrun for the consensus area (C13 headers/uncles/difficulty/batch, C14 seal):
   one request per line, one answer per line.  Trusted glue: parsing/printing and the
   oracle-table lookup for the PoW hash primitives. *)
open Model
open Vh

let opt_tok f s = if s = "-" then None else Some (f s)
let list_tok sep f s = if s = "-" || s = "" then [] else List.map f (String.split_on_char sep s)
let bools s = if s = "-" then [] else List.init (String.length s) (fun i -> s.[i] = '1')

(* cfg := chainid:k=v,k=v *)
let cfg_of s : cfg =
  match String.split_on_char ':' s with
  | [id; m] ->
    let ent e = (match String.split_on_char '=' e with
        | [k; v] -> (z_of_string k, z_of_string v) | _ -> failwith "cfg entry") in
    { chain_id = z_of_string id; hf = (if m = "" then [] else List.map ent (String.split_on_char ',' m)) }
  | _ -> failwith "cfg"

(* header := hash,parent,number,time,diff,gaslimit,gasused,extralen,seal *)
let hdr_of s : header =
  match String.split_on_char ',' s with
  | [h; p; n; t; d; gl; gu; el; sl] ->
    { h_hash = bytes_of_hex h; h_parent = bytes_of_hex p; h_number = z_of_string n; h_time = z_of_string t;
      h_diff = z_of_string d; h_gas_limit = z_of_string gl; h_gas_used = z_of_string gu;
      h_extra_len = z_of_string el; h_seal = z_of_string sl }
  | _ -> failwith "header"
let hdrs_of = list_tok ';' hdr_of

(* block := header|version|uncles *)
let block_of s : block =
  match String.split_on_char '|' s with
  | [h; v; us] -> let u = hdrs_of us in
    { bl_header = hdr_of h; bl_version = z_of_string v; bl_uncles = u; bl_uncles_stamped = List.map (fun x -> x.h_hash) u }
  | [h; v; us; st] -> { bl_header = hdr_of h; bl_version = z_of_string v; bl_uncles = hdrs_of us;
                        bl_uncles_stamped = list_tok ';' bytes_of_hex st }
  | _ -> failwith "block"
let blocks_of = list_tok '/' block_of

let verr_name = function
  | EExtra -> "extra" | ELargeTime -> "large-time" | EFuture -> "future" | EZeroTime -> "zero-time"
  | EDifficulty -> "difficulty" | EGasCap -> "gas-cap" | EGasUsed -> "gas-used" | EGasLimit -> "gas-limit"
  | ENumber -> "number" | ESeal c -> "seal:" ^ hex_of_z c
  | EUnknownAncestor -> "unknown-ancestor" | EUnknownGrandparent -> "unknown-grandparent"
  | ETooManyUncles -> "too-many-uncles" | EDuplicateUncle -> "duplicate-uncle"
  | EUncleIsAncestor -> "uncle-is-ancestor" | EDanglingUncle -> "dangling-uncle" | EVersionUnset -> "version-unset"

let res_unit = function Ok _ -> "ok" | Err e -> "err " ^ verr_name e | Panic -> "panic"
let res_z = function Ok z -> "ok " ^ hex_of_z z | Err e -> "err " ^ verr_name e | Panic -> "panic"

let event_of s = if s = "D" then Dispatch else
    if String.length s > 1 && s.[0] = 'C' then Complete (nat_of_int (int_of_string (String.sub s 1 (String.length s - 1))))
    else failwith "event"

(* ---- C14 *)
(* sheader := parent,uncle,coinbase,root,tx,rcpt,bloom,diff,number,gaslimit,gasused,time,extra,mix,nonce,version *)
let sh_of s : sheader =
  match String.split_on_char ',' s with
  | [p; u; cb; r; tx; rc; bl; d; n; gl; gu; t; ex; mix; nonce; v] ->
    { s_parent = bytes_of_hex p; s_uncle = bytes_of_hex u; s_coinbase = bytes_of_hex cb; s_root = bytes_of_hex r;
      s_txhash = bytes_of_hex tx; s_rcpt = bytes_of_hex rc; s_bloom = bytes_of_hex bl; s_diff = z_of_string d;
      s_number = z_of_string n; s_gas_limit = z_of_string gl; s_gas_used = z_of_string gu; s_time = z_of_string t;
      s_extra = bytes_of_hex ex; s_mix = bytes_of_hex mix; s_nonce = z_of_string nonce; s_version = z_of_string v }
  | _ -> failwith "sheader"

(* oracle := entries separated by ';'   A:in=out | B:in=out | C:in=out | H:number:hash:nonce=digest:result | H:...=none *)
type oracle = { tab : (string, string) Hashtbl.t }
let oracle_of s : oracle =
  let t = Hashtbl.create 16 in
  if s <> "-" then List.iter (fun e ->
      match String.split_on_char '=' e with
      | [k; v] -> Hashtbl.replace t k v
      | _ -> failwith "oracle entry") (String.split_on_char ';' s);
  { tab = t }
let argon (o : oracle) (tag : string) (inp : bytes) : bytes =
  match Hashtbl.find_opt o.tab (tag ^ ":" ^ hex_of_bytes inp) with
  | Some v -> bytes_of_hex v
  | None -> failwith ("oracle-miss " ^ tag ^ " " ^ hex_of_bytes inp)
let hashi (o : oracle) (number : z) (hash : bytes) (nonce : z) : (bytes * bytes) option =
  match Hashtbl.find_opt o.tab ("H:" ^ hex_of_z number ^ ":" ^ hex_of_bytes hash ^ ":" ^ hex_of_z nonce) with
  | Some "none" -> None
  | Some v -> (match String.split_on_char ':' v with
      | [d; r] -> Some (bytes_of_hex d, bytes_of_hex r) | _ -> failwith "oracle H value")
  | None -> failwith ("oracle-miss H " ^ hex_of_z number ^ " " ^ hex_of_bytes hash ^ " " ^ hex_of_z nonce)

let serr_name = function
  | SNonceRange -> "nonce-range" | SInvalidDifficulty -> "nonpositive-difficulty" | SEthash -> "ethash"
  | SMix -> "mix-digest" | SPoW -> "pow"

let handle (toks : string list) : string =
  match toks with
  | ["keccak"; h] -> hex_of_bytes (keccak256 (bytes_of_hex h))
  | ["version"; c; h] -> hex_of_z (block_version (cfg_of c) (z_of_string h))
  | ["ishf"; c; n; h] -> string_of_bool_ (is_hf (cfg_of c) (z_of_string n) (z_of_string h))
  | ["calcdiff"; c; t; p; gp] -> res_z (calc_difficulty (cfg_of c) (z_of_string t) (hdr_of p) (opt_tok hdr_of gp))
  | ["testnet3"; t; p; gp] -> hex_of_z (calc_testnet3 (z_of_string t) (hdr_of p) (opt_tok hdr_of gp))
  | ["ecalcdiff"; c; chain; t; p; gp] ->
    res_z (engine_calc_difficulty (cfg_of c) (hdrs_of chain) (z_of_string t) (hdr_of p) (opt_tok hdr_of gp))
  | ["vh"; c; now; chain; h; p; gp; uncle; seal] ->
    res_unit (verify_header (cfg_of c) (hdrs_of chain) (z_of_string now) (hdr_of h) (opt_tok hdr_of p) (opt_tok hdr_of gp)
                (uncle = "1") (seal = "1"))
  | ["vtop"; c; now; chain; h; seal] ->
    res_unit (verify_header_top (cfg_of c) (hdrs_of chain) (z_of_string now) (hdr_of h) (seal = "1"))
  | ["worker"; c; now; chain; hs; seals; idx] ->
    res_unit (verify_worker (cfg_of c) (hdrs_of chain) (z_of_string now) (hdrs_of hs) (bools seals) (nat_of_int (int_of_string idx)))
  | ["batch"; c; now; chain; hs; seals; sched] ->
    (match batch_results (cfg_of c) (hdrs_of chain) (z_of_string now) (hdrs_of hs) (bools seals) (list_tok ',' event_of sched) with
     | None -> "sched-invalid"
     | Some (rs, fin) -> String.concat "," (List.map res_unit rs) ^ (if fin then "|fin" else "|open"))
  | ["abatch"; c; now; chain; hs; seals; sched] ->
    let aev s = if s = "A" then AAbort else AEv (event_of s) in
    (match abatch_results (cfg_of c) (hdrs_of chain) (z_of_string now) (hdrs_of hs) (bools seals) (list_tok ',' aev sched) with
     | None -> "sched-invalid"
     | Some (rs, ab) -> String.concat "," (List.map res_unit rs) ^ (if ab then "|aborted" else "|running"))
  | ["seq"; c; now; chain; hs; seals] ->
    (match sequential (cfg_of c) (hdrs_of chain) (z_of_string now) (hdrs_of hs) (bools seals) O with
     | None -> "none"
     | Some (i, r) -> string_of_int (int_of_nat i) ^ " " ^ res_unit r)
  | ["uncles"; c; now; chain; blocks; b] ->
    res_unit (verify_uncles (cfg_of c) (hdrs_of chain) (blocks_of blocks) (z_of_string now) (block_of b))
  | ["uncles-as-stamped"; c; now; chain; blocks; b] ->
    res_unit (verify_uncles_v AsStamped (cfg_of c) (hdrs_of chain) (blocks_of blocks) (z_of_string now) (block_of b))
  | ["pickseals"; len; freq; rands] ->
    (match pick_seals (nat_of_int (int_of_string len)) (nat_of_int (int_of_string freq))
             (list_tok ',' (fun x -> nat_of_int (int_of_string x)) rands) with
     | None -> "panic"
     | Some l -> "ok " ^ String.concat "" (List.map (fun b -> if b then "1" else "0") l))
  | ["vchain"; c; now; chain; hs; seals] ->
    (match validate_with_seals (cfg_of c) (hdrs_of chain) (z_of_string now) (hdrs_of hs) (bools seals) (fun _ -> false) with
     | VOk -> "ok" | VNonContiguous -> "noncontiguous" | VBlacklisted i -> "blacklisted " ^ string_of_int (int_of_nat i)
     | VFail (i, e) -> string_of_int (int_of_nat i) ^ " err " ^ verr_name e | VPanic -> "panic")
  | ["sealer"; v; sh; starts; events; o] ->
    let o = oracle_of o in
    let ev s = if s = "x" then EStop else EStep (nat_of_int (int_of_string (String.sub s 1 (String.length s - 1)))) in
    (match seal_threads keccak256 (argon o "A") (argon o "B") (argon o "C") (hashi o) (z_of_string v) (sh_of sh)
             (list_tok ',' z_of_string starts) (list_tok ',' ev events) with
     | SPanic -> "panic" | SErr e -> "err " ^ serr_name e
     | SOk s ->
       (match s.sl_result with
        | None -> "none"
        | Some h -> "found " ^ hex_of_z h.s_nonce ^ " " ^ hex_of_bytes h.s_mix ^ " " ^ hex_of_z h.s_version)
       ^ " delivered=" ^ string_of_int (int_of_nat s.sl_delivered)
       ^ " threads=" ^ String.concat "" (List.map (function TSearch _ -> "S" | TOffer _ -> "O" | TDone -> "D") s.sl_threads))
  | ["blockops"; sh; txs; uncles; ops; o] ->
    (* one operation per '/'-separated token on the current block object; observations in order, "panic" ends the run *)
    let o = oracle_of o in
    let step b tok =
      let op = (match String.split_on_char '.' tok with
          | ["H"] -> BHash | ["Z"] -> BSize | ["G"] -> BHeader
          | ["V"; v] -> BSetVersion (z_of_string v) | ["C"; v] -> BSetVersionConfig (z_of_string v)
          | ["S"; h] -> BWithSeal (sh_of h) | ["B"; t; u] -> BWithBody (bytes_of_hex t, bytes_of_hex u)
          | _ -> failwith "block op") in
      block_op keccak256 (argon o "A") (argon o "B") (argon o "C") b op in
    let show = function
      | ObsHash x -> "h:" ^ hex_of_bytes x
      | ObsSize n -> "z:" ^ string_of_int (int_of_n n)
      | ObsHeader h -> "g:" ^ hex_of_bytes (rlp_full h) ^ ":" ^ hex_of_z h.s_version
      | ObsNone -> "-" in
    let rec go b toks acc = (match toks with
        | [] -> List.rev acc
        | t :: rest -> (match step b t with
            | SOk (b', ob) -> go b' rest (show ob :: acc)
            | SErr _ -> List.rev ("err" :: acc)
            | SPanic -> List.rev ("panic" :: acc))) in
    String.concat "/" (go (new_block (sh_of sh) (bytes_of_hex txs) (bytes_of_hex uncles)) (list_tok '/' (fun x -> x) ops) [])
  | ["rlpnn"; sh] -> hex_of_bytes (rlp_no_nonce (sh_of sh))
  | ["rlpfull"; sh] -> hex_of_bytes (rlp_full (sh_of sh))
  | ["hnn"; sh; o] -> let o = oracle_of o in hex_of_bytes (hash_no_nonce keccak256 (argon o "B") (sh_of sh))
  | ["hash"; sh; o] ->
    let o = oracle_of o in
    (match header_hash keccak256 (argon o "A") (argon o "B") (argon o "C") (sh_of sh) with
     | SOk b -> "ok " ^ hex_of_bytes b | SErr e -> "err " ^ serr_name e | SPanic -> "panic")
  | ["seal"; sh; o] ->
    let o = oracle_of o in
    (match verify_seal keccak256 (argon o "A") (argon o "B") (argon o "C") (hashi o) (sh_of sh) with
     | SOk _ -> "ok" | SErr e -> "err " ^ serr_name e | SPanic -> "panic")
  | ["mine"; fuel; v; sh; seed; o] ->
    let o = oracle_of o in
    (match mine keccak256 (argon o "A") (argon o "B") (argon o "C") (hashi o) (nat_of_int (int_of_string fuel))
             (z_of_string v) (sh_of sh) (z_of_string seed) with
     | SOk None -> "none"
     | SOk (Some h) -> "found " ^ hex_of_z h.s_nonce ^ " " ^ hex_of_bytes h.s_mix ^ " " ^ hex_of_z h.s_version
     | SErr e -> "err " ^ serr_name e | SPanic -> "panic")
  | _ -> "driver-error unknown-command"

let () = self_test b2n; serve handle
