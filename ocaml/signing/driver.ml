(* modelrun for the signing area (C12): one request per line, one answer per line.
   Oracle tables: secp256k1 results recorded by the harness from the real
   implementation; a query outside the table is answered "driver-error oracle-outside". *)
open Model
open Vh

let parse_tx (s : string) : tx =
  match String.split_on_char ',' s with
  | [n; p; g; t; v; d; sv; sr; ss] ->
    { t_nonce = n_of_string n; t_price = n_of_string p; t_gas = n_of_string g;
      t_to = (if t = "nil" then None else Some (bytes_of_hex t));
      t_value = n_of_string v; t_data = bytes_of_hex d;
      t_v = n_of_string sv; t_r = n_of_string sr; t_s = n_of_string ss }
  | _ -> failwith "tx syntax"

let render_tx (t : tx) : string =
  String.concat "," [hex_of_n t.t_nonce; hex_of_n t.t_price; hex_of_n t.t_gas;
    (match t.t_to with None -> "nil" | Some a -> hex_of_bytes a);
    hex_of_n t.t_value; hex_of_bytes t.t_data; hex_of_n t.t_v; hex_of_n t.t_r; hex_of_n t.t_s]

let parse_signer (s : string) : signer =
  if s = "F" then Frontier else if s = "H" then Homestead
  else if String.length s > 2 && String.sub s 0 2 = "E:" then EIP155 (n_of_string (String.sub s 2 (String.length s - 2)))
  else failwith "signer syntax"

(* table "k1=v1;k2=v2" (keys and values are raw strings, compared after lower-casing hex) *)
let parse_table (s : string) : (string * string) list =
  if s = "-" then [] else
  List.map (fun e -> match String.split_on_char '=' e with
      | [k; v] -> (k, v) | _ -> failwith "table syntax") (String.split_on_char ';' s)

let lookup tbl k = match List.assoc_opt k tbl with Some v -> v | None -> failwith ("oracle-outside " ^ k)

let ecrec_of tbl : bytes -> bytes -> bytes option = fun h sg ->
  let v = lookup tbl (hex_of_bytes h ^ ":" ^ hex_of_bytes sg) in
  if v = "err" then None else Some (bytes_of_hex v)
let sign_of tbl : bytes -> bytes -> bytes option = fun key h ->
  let v = lookup tbl (hex_of_bytes key ^ ":" ^ hex_of_bytes h) in
  if v = "err" then None else Some (bytes_of_hex v)
let addr_of tbl : bytes -> bytes = fun key -> bytes_of_hex (lookup tbl (hex_of_bytes key))

let render_signer = function Frontier -> "F" | Homestead -> "H" | EIP155 c -> "E:" ^ hex_of_n c
let parse_opt s = if s = "nil" then None else Some (n_of_string s)
let parse_cfg cid hb eb = { cc_chain_id = n_of_string cid; cc_homestead = parse_opt hb; cc_eip155 = parse_opt eb }

let str_err = function EChain -> "chain" | ESig -> "sig" | ERecover -> "recover" | EPub -> "pub"
let str_res = function Ok a -> "ok " ^ hex_of_bytes a | Err e -> "err " ^ str_err e | Panic -> "panic"

let ascii_of_bytes (l : byte list) : string = String.init (List.length l) (fun i -> Char.chr (int_of_byte (List.nth l i)))
let bytes_of_ascii (s : string) : byte list = List.init (String.length s) (fun i -> byte_of_int (Char.code s.[i]))

let handle (toks : string list) : string =
  match toks with
  | ["keccak"; h] -> hex_of_bytes (keccak256 (bytes_of_hex h))
  | ["sighash"; sg; t] -> hex_of_bytes (sighash keccak256 (parse_signer sg) (parse_tx t))
  | ["txhash"; t] -> hex_of_bytes (tx_hash keccak256 (parse_tx t))
  | ["encode_tx"; t] -> hex_of_bytes (encode_tx (parse_tx t))
  | ["decode_tx"; h] -> (match decode_tx (bytes_of_hex h) with Some t -> "ok " ^ render_tx t | None -> "err")
  | ["sender"; sg; t; tbl] ->
    str_res (sender_signer keccak256 (ecrec_of (parse_table tbl)) (parse_signer sg) (parse_tx t))
  | ["sender2"; sg1; sg2; t; tbl] ->
    (* types.Sender under sg1 on a fresh transaction, then under sg2 on the same object *)
    let e = ecrec_of (parse_table tbl) in
    let t = parse_tx t in
    let (r1, c1) = sender_cached keccak256 e (parse_signer sg1) t None in
    let (r2, _) = sender_cached keccak256 e (parse_signer sg2) t c1 in
    str_res r1 ^ " | " ^ str_res r2
  | ["sendern"; sgs; t; tbl] ->
    (* types.Sender under each signer of the ';'-separated list in turn, on one transaction object *)
    let e = ecrec_of (parse_table tbl) in
    let (outs, _) = sender_seq keccak256 e (parse_tx t) None (List.map parse_signer (String.split_on_char ';' sgs)) in
    String.concat " | " (List.map str_res outs)
  | ["withsig"; sga; sgb; t; sg; sgs; tbl] ->
    (* the object is queried under sga (fills the cache), WithSignature(sgb, sg) makes a copy, the copy is
       queried under each signer of sgs *)
    let e = ecrec_of (parse_table tbl) in
    let t = parse_tx t in
    let (_, c) = sender_cached keccak256 e (parse_signer sga) t None in
    (match with_signature_obj (parse_signer sgb) (t, c) (bytes_of_hex sg) with
     | Ok (t', c') ->
       let (outs, _) = sender_seq keccak256 e t' c' (List.map parse_signer (String.split_on_char ';' sgs)) in
       "ok " ^ render_tx t' ^ " " ^ String.concat " | " (List.map str_res outs)
     | Err _ -> "err" | Panic -> "panic")
  | ["sigvalues"; sg; s] ->
    (match signature_values (parse_signer sg) (bytes_of_hex s) with
     | Ok ((r, s), v) -> "ok " ^ hex_of_n r ^ " " ^ hex_of_n s ^ " " ^ hex_of_n v
     | Err e -> "err " ^ str_err e | Panic -> "panic")
  | ["validate"; v; r; s; hs] ->
    string_of_bool_ (validate_sig (n_of_string v) (n_of_string r) (n_of_string s) (hs = "true"))
  | ["vinfo"; v] ->
    let v = n_of_string v in
    string_of_bool_ (is_protected_v v) ^ " " ^ hex_of_n (derive_chain_id v)
  | ["signtx"; sg; key; t; stbl; atbl; etbl] ->
    (match sign_tx keccak256 (ecrec_of (parse_table etbl)) (sign_of (parse_table stbl)) (addr_of (parse_table atbl))
             (parse_signer sg) (bytes_of_hex key) (parse_tx t) with
     | SOk t' -> "ok " ^ render_tx t'
     | SSignErr -> "err sign" | SSenderErr e -> "err sender-" ^ str_err e
     | SMismatch -> "err mismatch" | SPanic -> "panic")
  | ["makesigner"; cid; hb; eb; num] -> render_signer (make_signer (parse_cfg cid hb eb) (n_of_string num))
  | ["sender_at"; cid; hb; eb; num; t; tbl] ->
    (* ApplyTransaction / AsMessage: types.MakeSigner(config, header.Number), then Sender *)
    let sg = make_signer (parse_cfg cid hb eb) (n_of_string num) in
    render_signer sg ^ " | " ^ str_res (sender_signer keccak256 (ecrec_of (parse_table tbl)) sg (parse_tx t))
  | ["sender_pool"; cid; hb; eb; t; tbl] ->
    (* TxPool.validateTx: types.Sender(pool.signer, tx) *)
    let sg = pool_signer (parse_cfg cid hb eb) in
    render_signer sg ^ " | " ^ str_res (sender_signer keccak256 (ecrec_of (parse_table tbl)) sg (parse_tx t))
  | ["json_tx"; a; b; c; d; e; f; g; h; i; j] ->
    let pf t = if t = "M" then JAbsent else if t = "X" then JBad
      else if String.length t >= 2 && String.sub t 0 2 = "S:" then JS (bytes_of_hex (String.sub t 2 (String.length t - 2)))
      else failwith "jfield syntax" in
    (match tx_of_json { j_nonce = pf a; j_price = pf b; j_gas = pf c; j_to = pf d; j_value = pf e; j_input = pf f;
                        j_v = pf g; j_r = pf h; j_s = pf i; j_hash = pf j } with
     | Some t -> "ok " ^ render_tx t ^ " " ^ hex_of_bytes (tx_hash keccak256 t)
     | None -> "err")
  | ["json_of"; t] ->
    let t = parse_tx t in
    let j = json_of_tx t (tx_hash keccak256 t) in
    let rf = function JAbsent -> "M" | JBad -> "X" | JS s -> "S:" ^ hex_of_bytes s in
    String.concat " " (List.map rf [j.j_nonce; j.j_price; j.j_gas; j.j_to; j.j_value; j.j_input; j.j_v; j.j_r; j.j_s; j.j_hash])
  | ["quantity"; n] -> ascii_of_bytes (enc_quantity (n_of_string n))
  | ["dec_quantity"; maxlen; s] ->
    (* s: the JSON string content, hex-encoded ASCII *)
    (match dec_quantity (n_of_string maxlen) (bytes_of_hex s) with Some n -> "ok " ^ hex_of_n n | None -> "err")
  | ["json_accepts"; t] -> string_of_bool_ (json_accepts (parse_tx t))
  | _ -> "driver-error unknown-command"

let () = self_test b2n; serve handle
