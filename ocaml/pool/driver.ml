(* modelrun for the pool area (C15): one request per line, one answer per line.
   The driver holds the current model state, a block store and a candidate
   next state: `try <op> <oracle> ...` computes the candidate and prints the
   observation; `commit` makes the candidate current.  So the harness can look
   for an oracle (map-iteration order) under which the model agrees. *)
open Model
open Vh

let zs = z_of_string
let sz (x : z) : string = string_of_int (int_of_z x)   (* ids, nonces, counts: small *)
let big (x : z) : string = hex_of_z x

let list_of tok f = if tok = "-" then [] else List.map f (split_on ',' tok)

(* hash:from:nonce:price:gas:value:intr:size:sigok *)
let parse_tx (s : string) : tx =
  match split_on ':' s with
  | [h; f; n; p; g; v; i; sz_; ok] ->
    { thash = zs h; tfrom = zs f; tnonce = zs n; tprice = zs p; tgas = zs g; tvalue = zs v;
      tintr = zs i; tsize = zs sz_; tsigok = (ok = "1") }
  | _ -> failwith ("bad tx " ^ s)
let parse_txs tok = if tok = "-" then [] else List.map parse_tx (split_on ';' tok)
let parse_cur tok : (z * (z * z)) list =
  list_of tok (fun e -> match split_on ':' e with [a; n; b] -> (zs a, (zs n, zs b)) | _ -> failwith "bad cur")
let parse_oracle p1 p2 p3 p4 rk : oracle =
  { operm1 = list_of p1 zs; operm2 = list_of p2 zs; operm3 = list_of p3 zs; operm4 = list_of p4 zs;
    orank = list_of rk (fun e -> match split_on ':' e with [h; r] -> (zs h, zs r) | _ -> failwith "bad rank") }

let state : pool option ref = ref None
let cand : pool option ref = ref None
let senders : z list ref = ref []
let blocks : block list ref = ref []

let err_name = function
  | EKnown -> "known" | EOversized -> "oversized" | ENegative -> "negative" | EGasLimit -> "gaslimit"
  | EInvalidSender -> "invalidsender" | EUnderpriced -> "underpriced" | ENonceLow -> "noncelow"
  | EFunds -> "funds" | EIntrinsic -> "intrinsic" | EReplaceUnderpriced -> "replaceunderpriced"

let sort_ints l = List.sort compare l
let join f l = String.concat "," (List.map f l)

let dump_lists (m : (z * txlist) list) : string =
  let l = List.sort (fun (a, _) (b, _) -> compare (int_of_z a) (int_of_z b)) m in
  String.concat "|" (List.map (fun (a, tl) ->
    sz a ^ "=" ^ join (fun t -> sz t.thash) tl.items ^ "/" ^ join (fun t -> sz t.tnonce) tl.items
    ^ "/" ^ (if tl.strict then "s" else "n") ^ "/" ^ big tl.costcap ^ "/" ^ sz tl.gascap) l)

(* two renderings: the main one, and (after " ## ") the identities of the stale heap entries *)
let dump (p : pool) : string =
  let allh = sort_ints (List.map (fun (h, _) -> int_of_z h) p.all) in
  let live = List.filter (fun t -> is_live p.all t) p.pricedl.pitems in
  let stale = List.filter (fun t -> not (is_live p.all t)) p.pricedl.pitems in
  let hs l = String.concat "," (List.map string_of_int (sort_ints (List.map (fun t -> int_of_z t.thash) l))) in
  let beat_rank a = List.length (List.filter (fun (b, u) -> b <> a && int_of_z u < int_of_z (beat_of p a)) p.beats) in
  let bl = List.sort compare (List.map (fun (a, _) -> (int_of_z a, beat_rank a)) p.beats) in
  "P[" ^ dump_lists p.pending ^ "] Q[" ^ dump_lists p.queue ^ "] A[" ^ String.concat "," (List.map string_of_int allh)
  ^ "] R[" ^ hs live ^ "/" ^ string_of_int (List.length stale) ^ "/" ^ sz p.pricedl.pstales
  ^ "] N[" ^ join (fun a -> sz a ^ "=" ^ sz (pn_get p a)) !senders
  ^ "] L[" ^ String.concat "," (List.map string_of_int (sort_ints (List.map int_of_z p.locals)))
  ^ "] B[" ^ String.concat "," (List.map (fun (a, r) -> string_of_int a ^ ":" ^ string_of_int r) bl)
  ^ "] S[" ^ sz (pending_count p) ^ "," ^ sz (queued_count p)
  ^ "] G[" ^ big p.gasprice ^ "," ^ sz p.maxgas ^ "] ## " ^ hs stale

let get () = match !state with Some p -> p | None -> failwith "no pool"

let finish_res (tag : string) (r : pool res) : string =
  match r with
  | Ok p -> cand := Some p; tag ^ " " ^ dump p
  | Panic -> cand := None; "panic"
  | OutOfFuel -> cand := None; "outoffuel"

let find_block (tok : string) : block option =
  if tok = "-" then None else
  match split_on ':' tok with
  | [h; n] -> (match get_block !blocks (zs h) (zs n) with Some b -> Some b | None -> failwith "unknown block")
  | _ -> failwith "bad block ref"


(* ---- data-structure level: a whole operation sequence on one txList (core/tx_list.go), canonical output.
   tlseq <strict 0|1> <bump> <op;op;...>   ops: A:<tx>  F:<threshold>  X:<cost>:<gas>  C:<k>  R:<nonce>  Y:<start>  L
   answer: one result per op joined by ';' then ' | ' and the final list (hash/nonce pairs, ceilings, strictness) *)
let o_none : oracle = { operm1 = []; operm2 = []; operm3 = []; operm4 = []; orank = [] }
let by_nonce (l : tx list) : tx list = List.sort (fun a b -> compare (int_of_z a.tnonce) (int_of_z b.tnonce)) l
let hs (l : tx list) : string = String.concat "," (List.map (fun t -> sz t.thash) (by_nonce l))
let dummy_nonce (n : z) : tx =
  { thash = Z0; tfrom = Z0; tnonce = n; tprice = Z0; tgas = Z0; tvalue = Z0; tintr = Z0; tsize = Z0; tsigok = true }
let tl_dump (l : txlist) : string =
  String.concat "," (List.map (fun t -> sz t.thash ^ "@" ^ sz t.tnonce) l.items)
  ^ "/" ^ big l.costcap ^ "/" ^ sz l.gascap ^ "/" ^ (if l.strict then "s" else "n")
let tlseq (strict : string) (bump : string) (ops : string) : string =
  let l = ref (new_txlist (strict = "1")) in
  let dead = ref false in
  let one (op : string) : string =
    if !dead then "-" else
    match split_on ':' op with
    | "A" :: rest ->
      let t = parse_tx (String.concat ":" rest) in
      let ((ins, old), l') = tl_add !l t (zs bump) in
      l := l'; (if ins then "1" else "0") ^ (match old with Some o -> "~" ^ sz o.thash | None -> "")
    | ["F"; n] -> let (rm, l') = tl_forward !l (zs n) in l := l'; hs rm
    | ["X"; c; g] -> let ((dr, inv), l') = tl_filter o_none !l (zs c) (zs g) in l := l'; hs dr ^ "/" ^ hs inv
    | ["C"; k] -> (match tl_cap !l (zs k) with
                   | Some (dr, l') -> l := l'; hs dr
                   | None -> dead := true; "panic")
    | ["R"; n] -> let ((b, inv), l') = tl_remove o_none !l (dummy_nonce (zs n)) in l := l'; (if b then "1" else "0") ^ "/" ^ hs inv
    | ["Y"; n] -> let (rd, l') = tl_ready !l (zs n) in l := l'; hs rd
    | ["L"] -> String.concat "," (List.map (fun t -> sz t.thash) !l.items)
    | _ -> failwith ("bad tl op " ^ op) in
  let rs = List.map one (split_on ';' ops) in
  String.concat ";" rs ^ " | " ^ tl_dump !l

let handle (toks : string list) : string =
  match toks with
  | ["new"; asl; gsl; aq; gq; bump; nolocals; gp; maxgas; cur; snd_] ->
    let c = { c_aslots = zs asl; c_gslots = zs gsl; c_aqueue = zs aq; c_gqueue = zs gq; c_bump = zs bump; c_nolocals = (nolocals = "1") } in
    let p = new_pool c (zs gp) (parse_cur cur) (zs maxgas) in
    state := Some p; cand := None; blocks := []; senders := list_of snd_ zs;
    "ok " ^ dump p
  | ["block"; h; parent; number; txs] ->
    blocks := { bhash = zs h; bparent = zs parent; bnumber = zs number; btxs = parse_txs txs } :: !blocks; "ok"
  | ["try"; "addl"; p1; p2; p3; p4; rk; t] ->
    (match add_local (parse_oracle p1 p2 p3 p4 rk) (get ()) (parse_tx t) with
     | Ok (e, p) -> finish_res (match e with None -> "nil" | Some e -> err_name e) (Ok p)
     | Panic -> finish_res "" Panic | OutOfFuel -> finish_res "" OutOfFuel)
  | ["try"; "addr"; p1; p2; p3; p4; rk; t] ->
    (match add_remote (parse_oracle p1 p2 p3 p4 rk) (get ()) (parse_tx t) with
     | Ok (e, p) -> finish_res (match e with None -> "nil" | Some e -> err_name e) (Ok p)
     | Panic -> finish_res "" Panic | OutOfFuel -> finish_res "" OutOfFuel)
  | ["try"; "gasprice"; p1; p2; p3; p4; rk; g] ->
    finish_res "done" (Ok (set_gas_price (parse_oracle p1 p2 p3 p4 rk) (get ()) (zs g)))
  | ["try"; "reset"; p1; p2; p3; p4; rk; maxgas; cur; oldb; newb] ->
    (match find_block newb with
     | None -> failwith "reset needs a new head"
     | Some nb -> finish_res "done" (reset_heads (parse_oracle p1 p2 p3 p4 rk) (get ()) !blocks (find_block oldb) nb (parse_cur cur) (zs maxgas)))
  | ["reorgtxs"; oldb; newb] ->
    (match find_block newb with
     | None -> failwith "needs a new head"
     | Some nb -> (match reorg_txs !blocks (find_block oldb) nb with
                   | Ok None -> "unrooted" | Ok (Some l) -> "ok " ^ join (fun t -> sz t.thash) l
                   | Panic -> "panic" | OutOfFuel -> "outoffuel"))
  | ["tlseq"; strict; bump; ops] -> tlseq strict bump ops
  | ["commit"] -> (match !cand with Some p -> state := Some p; cand := None; "ok" | None -> "driver-error nothing-to-commit")
  | ["dump"] -> dump (get ())
  | _ -> "driver-error unknown-command"

let () = self_test b2n; serve handle
