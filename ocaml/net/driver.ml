(* modelrun for the net area (C17): one request per line, one answer per line.
   Primitive oracles (AES block, CTR key stream, snappy, ecrecover, sign) arrive
   as tables with the request; a query outside the table raises Failure
   "oracle-miss ..." which is reported as a driver-error (= a divergence). *)
open Model
open Vh

let bool_of_tok t = (t = "1")
let dec n = string_of_int (int_of_n n)

(* "in:out,in:out" or "-" *)
let table (s : string) : (string * string) list =
  if s = "-" then [] else
  List.map (fun kv -> match String.split_on_char ':' kv with
      | [k; v] -> (strip0x k, strip0x v) | _ -> failwith "bad table") (String.split_on_char ',' s)
let key_of (b : byte list) : string = strip0x (hex_of_bytes b)

let aes_of tbl = fun (b : byte list) ->
  match List.assoc_opt (key_of b) tbl with Some v -> bytes_of_hex v | None -> failwith "oracle-miss aes"
let ks_of (hex : string) =
  let a = Array.of_list (bytes_of_hex hex) in
  fun (n : n) -> let i = int_of_n n in if i < Array.length a then a.(i) else failwith "oracle-miss keystream"
let snappy_enc_of tbl = fun (b : byte list) ->
  match List.assoc_opt (key_of b) tbl with Some v -> bytes_of_hex v | None -> failwith "oracle-miss snappy-enc"
let snappy_dec_of tbl = fun (b : byte list) ->
  match List.assoc_opt (key_of b) tbl with
  | Some "none" -> None | Some v -> Some (bytes_of_hex v) | None -> failwith "oracle-miss snappy-dec"

let rerr_s = function
  | RShort -> "short" | RHeaderMac -> "hmac" | RFrameMac -> "fmac"
  | RCode -> "err" | RSnappy -> "err" | RTooLarge -> "toolarge"

(* ---- discovery messages: text form ---- *)
let hexl (l : string) : byte list list = if l = "-" then [] else List.map bytes_of_hex (String.split_on_char ',' l)
let endpoint_of (s : string) : endpoint =
  match String.split_on_char '/' s with
  | [ip; u; t] -> { ep_ip = bytes_of_hex ip; ep_udp = n_of_string u; ep_tcp = n_of_string t }
  | _ -> failwith "bad endpoint"
let node_of (s : string) : rpc_node =
  match String.split_on_char '/' s with
  | [ip; u; t; id] -> { nd_ip = bytes_of_hex ip; nd_udp = n_of_string u; nd_tcp = n_of_string t; nd_id = bytes_of_hex id }
  | _ -> failwith "bad node"
let msg_of (s : string) : dmsg =
  match String.split_on_char ';' s with
  | ["P"; v; f; t; e; r] -> Ping (n_of_string v, endpoint_of f, endpoint_of t, n_of_string e, hexl r)
  | ["O"; t; tok; e; r] -> Pong (endpoint_of t, bytes_of_hex tok, n_of_string e, hexl r)
  | ["F"; tg; e; r] -> Findnode (bytes_of_hex tg, n_of_string e, hexl r)
  | ["N"; ns; e; r] ->
    Neighbors ((if ns = "-" then [] else List.map node_of (String.split_on_char '|' ns)), n_of_string e, hexl r)
  | _ -> failwith "bad msg"
let kind_of = function Ping _ -> "ping" | Pong _ -> "pong" | Findnode _ -> "findnode" | Neighbors _ -> "neighbors"

let gate_s = function GTooLarge -> "toolarge" | GExtraStatus -> "extrastatus" | GInvalidCode -> "invalid" | GDecode -> "decode"

let handle (toks : string list) : string =
  match toks with
  | ["keccak"; h] -> hex_of_bytes (keccak256 (bytes_of_hex h))
  | ["consts"] ->
    String.concat " " (List.map dec [protocol_max_msg_size; soft_response_limit; est_header_rlp_size; max_block_fetch;
                                     max_header_fetch; max_receipt_fetch; max_state_fetch; base_protocol_max_msg_size; max_uint24])
  | ["gate"; c; s] -> gate_s (handle_gate (n_of_string c) (n_of_string s))
  | ["serve"; lim; es] ->
    let elems = if es = "-" then [] else List.map (fun e ->
        if e = "b" then EBad else if e = "n" then EHash None
        else EHash (Some (n_of_string (String.sub e 1 (String.length e - 1))))) (String.split_on_char ',' es) in
    (match Model.serve (n_of_string lim) N0 N0 N0 elems with
     | SErr -> "err" | SOk (c, b, l) -> "ok " ^ dec c ^ " " ^ dec b ^ " " ^ dec l)
  | ["deliver"; pend; ms] ->
    (* pend = "-" (no request in flight) or the number of requested headers; ms = string of 0/1 flags or "-" *)
    let pending = if pend = "-" then None else Some (nat_of_int (int_of_string pend)) in
    let flags = if ms = "-" then [] else List.init (String.length ms) (fun i -> ms.[i] = '1') in
    let (a, c) = deliver_rule pending flags in
    dec a ^ " " ^ (match c with DlvOk -> "ok" | DlvNoFetch -> "nofetch" | DlvStale -> "stale" | DlvPartial -> "partial")
  | ["hdrs"; h; hm; origin; amount; skip; rev] ->
    let o = if origin = "-" then None else Some (n_of_string origin) in
    let l = serve_headers (n_of_string h) (bool_of_tok hm) o (n_of_string amount) (n_of_string skip) (bool_of_tok rev) in
    if l = [] then "-" else String.concat "," (List.map dec l)
  | ["discreason"; payload] ->
    let n = disc_reason (bytes_of_hex payload) in
    hex_of_n n ^ " " ^ (if disc_reason_named n then "named" else "unknown")
  | ["hdec"; code; size; payload] ->
    (match handle_decode (n_of_string code) (n_of_string size) (bytes_of_hex payload) with
     | HdTooLarge -> "toolarge" | HdExtraStatus -> "extrastatus" | HdInvalidCode -> "invalid" | HdNotTyped -> "nottyped"
     | HdReject -> "reject" | HdAccept (_, c) -> "accept " ^ string_of_int (List.length c))
  | ["markknown"; which; card; already; self] ->
    let mx = if which = "blocks" then max_known_blocks else max_known_txs in
    dec (mark_known mx (n_of_string card) (bool_of_tok already) (bool_of_tok self))
  | ["hfill"; pend; count; f; l; ch] ->
    (match headers_fill_rule (bool_of_tok pend) (n_of_string count) (bool_of_tok f) (bool_of_tok l) (bool_of_tok ch) with
     | HfNoFetch -> "0 nofetch" | HfRejected -> "0 rejected" | HfAccepted n -> dec n ^ " ok")
  | ["headers"; a; av] -> dec (headers_served (n_of_string a) (n_of_string av))
  | ["bufsize"; f] -> dec (frame_buf_size (n_of_string f))
  | ["declen"; h] -> (match snappy_declen (bytes_of_hex h) with Some n -> "ok " ^ dec n | None -> "err")
  | ["expired"; ts; now] -> string_of_bool_ (expired (n_of_string ts) (z_of_string now))
  | ["fwrite"; sn; pos; mac; code; payload; ks; aes; stab] ->
    let st = { w_pos = n_of_string pos; w_mac = bytes_of_hex mac } in
    (match write_msg keccak256 (aes_of (table aes)) (ks_of ks) (snappy_enc_of (table stab)) (bool_of_tok sn) st
             (n_of_string code) (bytes_of_hex payload) with
     | WErr WTooLarge -> "err toolarge"
     | WErr WOverflow -> "err overflow"
     | WOk (out, st') -> "ok " ^ hex_of_bytes out ^ " " ^ dec st'.w_pos ^ " " ^ hex_of_bytes st'.w_mac)
  | ["fread"; sn; pos; mac; stream; ks; aes; stab] ->
    let st = { r_pos = n_of_string pos; r_mac = bytes_of_hex mac } in
    (match read_msg keccak256 (aes_of (table aes)) (ks_of ks) (snappy_dec_of (table stab)) (bool_of_tok sn) st
             (bytes_of_hex stream) with
     | RErr e -> "err " ^ rerr_s e
     | ROk (code, payload, st', rest) ->
       "ok " ^ hex_of_n code ^ " " ^ hex_of_bytes payload ^ " " ^ dec st'.r_pos ^ " " ^ hex_of_bytes st'.r_mac
       ^ " " ^ hex_of_bytes rest)
  | ["freadio"; sn; pos; mac; stream; ks; aes; stab] ->
    (* ReadMsg with its I/O account: result class, bytes consumed, buffer bytes requested, declared size *)
    let st = { r_pos = n_of_string pos; r_mac = bytes_of_hex mac } in
    let (res, io) = read_msg_io keccak256 (aes_of (table aes)) (ks_of ks) (snappy_dec_of (table stab)) (bool_of_tok sn) st
        (bytes_of_hex stream) in
    (match res with
     | RErr e -> "err " ^ rerr_s e
     | ROk (code, payload, _, _) -> "ok " ^ hex_of_n code ^ " " ^ dec (n_of_int (List.length payload)))
    ^ " consumed=" ^ dec io.io_consumed ^ " alloc=" ^ dec io.io_alloc
    ^ " declared=" ^ (match io.io_declared with None -> "-" | Some f -> dec f)
  | ["freadn"; sn; n; pos; mac; stream; ks; aes; stab] ->
    (* a whole session: read_n — the values a session delivers, and how it ended *)
    let st = { r_pos = n_of_string pos; r_mac = bytes_of_hex mac } in
    let (((ms, e), _), _) =
      read_n keccak256 (aes_of (table aes)) (ks_of ks) (snappy_dec_of (table stab)) (bool_of_tok sn)
        (nat_of_int (int_of_string n)) st (bytes_of_hex stream) in
    let items = List.map (fun (c, p) -> hex_of_n c ^ ":" ^ hex_of_bytes p) ms in
    (if items = [] then "-" else String.concat "," items) ^ " " ^ (match e with None -> "none" | Some e -> rerr_s e)
  | ["decode"; nc; buf; rh; rs; rr] ->
    let rh = bytes_of_hex rh and rs = bytes_of_hex rs in
    let recover h s =
      if h = rh && s = rs then (if rr = "none" then None else Some (bytes_of_hex rr))
      else failwith "oracle-miss recover" in
    (match decode_packet keccak256 recover (bool_of_tok nc) (bytes_of_hex buf) with
     | DTooSmall -> "toosmall"
     | DEmptySigdata -> "emptysigdata"
     | DBadHash -> "badhash"
     | DBadSig -> "badsig"
     | DUnknownType (id, _) -> "unknowntype " ^ hex_of_bytes id
     | DBadBody (id, t) ->
       "badbody " ^ hex_of_bytes id ^ " " ^ (match int_of_n t with 134 -> "ping" | 135 -> "pong" | 136 -> "findnode" | _ -> "neighbors")
     | DTooSmallBody id -> "toosmallbody " ^ hex_of_bytes id
     | DPanic -> "panic"
     | DOk (m, id, hash) ->
       "ok " ^ kind_of m ^ " " ^ hex_of_bytes id ^ " " ^ hex_of_bytes hash ^ " " ^ hex_of_bytes (encode_msg m))
  | ["encode"; nc; ptype; msg; sh; sg] ->
    let sh = bytes_of_hex sh and sg = bytes_of_hex sg in
    let sign _ h = if h = sh then sg else failwith "oracle-miss sign" in
    hex_of_bytes (encode_packet keccak256 sign (bool_of_tok nc) [] (n_of_string ptype) (msg_of msg))
  | ["hs"; ack; stream; pl; e8] ->
    let ack = bool_of_tok ack in
    let dec_plain _ = if pl = "none" then None else Some (bytes_of_hex pl) in
    let dec_eip8 _ _ = if e8 = "none" then None else Some (bytes_of_hex e8) in
    let (c, n) = read_handshake_msg dec_plain dec_eip8 (if ack then ack_body_ok else auth_body_ok)
        (if ack then enc_auth_resp_len else enc_auth_msg_len) (bytes_of_hex stream) in
    (match c with HShort -> "short" | HPlain -> "ok-plain" | HUnderflow -> "underflow"
                | HDecryptErr -> "err" | HBadBody -> "err" | HOk -> "ok") ^ " " ^ dec n
  | ["rhs"; stream; pl; e8; idc; ecdh; sigr] ->
    (* receiverEncHandshake: readHandshakeMsg then handleAuthMsg (primitive outcomes as oracle bits) *)
    let dec_plain _ = if pl = "none" then None else Some (bytes_of_hex pl) in
    let dec_eip8 _ _ = if e8 = "none" then None else Some (bytes_of_hex e8) in
    let (c, _) = read_handshake_msg dec_plain dec_eip8 auth_body_ok enc_auth_msg_len (bytes_of_hex stream) in
    (match receiver_handshake c (bool_of_tok idc) (bool_of_tok ecdh) (bool_of_tok sigr) with
     | RcRead HShort -> "read-short" | RcRead HUnderflow -> "read-underflow" | RcRead _ -> "read-err"
     | RcBadId -> "badid" | RcBadEcdh -> "badecdh" | RcBadSig -> "badsig" | RcOk -> "ok")
  | ["phs"; code; size; payload] ->
    (match read_protocol_handshake (n_of_string code) (n_of_string size) (bytes_of_hex payload) with
     | PhTooBig -> "toobig" | PhDisc -> "disc" | PhWrongCode -> "wrongcode" | PhBadBody -> "badbody"
     | PhZeroId -> "zeroid" | PhOk id -> "ok " ^ hex_of_bytes id)
  | ["phsoutcomes"; early; v] ->
    (* every (handshake frame compressed?, final rw.snappy) over all interleavings of doProtoHandshake *)
    let l = List.sort_uniq compare (handshake_outcomes (bool_of_tok early) (n_of_string v)) in
    String.concat "," (List.map (fun (c, f) -> (if c then "compressed" else "plain") ^ "/" ^ (if f then "snappy" else "nosnappy")) l)
  | ["dsm"; now; evs] ->
    (* the discovery packet-history machine: events T<dt> | F<id> | I<from>:P:<exp> | I<from>:O:<tok>:<exp> | I<from>:F:<exp> | I<from>:N:<n>:<exp> *)
    let ev_of t =
      let body = String.sub t 1 (String.length t - 1) in
      match t.[0] with
      | 'T' -> EvTick (n_of_string body)
      | 'F' -> EvIssueFindnode (n_of_string body)
      | _ -> (match String.split_on_char ':' body with
              | [f; "P"; e] -> EvIn (n_of_string f, InPing (n_of_string e))
              | [f; "O"; k; e] -> EvIn (n_of_string f, InPong (n_of_string k, n_of_string e))
              | [f; "F"; e] -> EvIn (n_of_string f, InFindnode (n_of_string e))
              | [f; "N"; k; e] -> EvIn (n_of_string f, InNeighbors (n_of_string k, n_of_string e))
              | _ -> failwith "bad event") in
    let out_s = function
      | OutPong t -> "pong>" ^ dec t | OutPing (t, k) -> "ping>" ^ dec t ^ "#" ^ dec k
      | OutFindnode t -> "findnode>" ^ dec t | OutNeighbors (t, c) -> "neighbors>" ^ dec t ^ "*" ^ dec c in
    let v_s = function VOk -> "ok" | VExpired -> "expired" | VUnsolicited -> "unsolicited" | VUnknownNode -> "unknownnode" | VLocal -> "local" in
    let s0 = { d_init with d_now = n_of_string now } in
    let (_, lines) = List.fold_left (fun (s, acc) t ->
        let ((s', v), o) = step s (ev_of t) in
        let bonded = List.filter (fun (i, _) -> has_bond s' i) s'.d_bonds in
        let line = v_s v ^ "/" ^ (if o = [] then "-" else String.concat "+" (List.map out_s o))
                   ^ "/bonded=" ^ String.concat "." (List.map string_of_int (List.sort compare (List.map (fun (i, _) -> int_of_n i) bonded)))
                   ^ "/table=" ^ string_of_int (List.length s'.d_table) in
        (s', line :: acc)) (s0, []) (String.split_on_char ',' evs) in
    String.concat ";" (List.rev lines)
  | ["decmsg"; t; body] ->
    (match dec_msg (n_of_string t) (bytes_of_hex body) with
     | None -> "err" | Some m -> "ok " ^ kind_of m ^ " " ^ hex_of_bytes (encode_msg m))
  | _ -> "driver-error unknown-command"

let () = self_test b2n; Vh.serve handle
