(* modelrun for the EVM interpreter / call machinery (property C07): one request per line, one
   answer per line.

   request:  KIND height gas value caller target data trace fuelcap origin gasprice coinbase gaslimit time difficulty ACCTS PRECOMP
     KIND     call | create            (vm.NewEVM(..).Call / .Create on the mainnet configuration at [height])
     target   callee address (call) / ignored (create); data = call data (call) / init code (create)
     ACCTS    "-" or  addr:nonce:balance:code:k=v,k=v:suicided;...      (numbers hex, code hex bytes or "-")
     PRECOMP  "-" or  addr:input:gas:ok|fail:output;...                 (the precompile oracle table)
   answer:   RES left ret addr refund LOGS WORLD TRACE
     RES      ok | revert | err:<class> | panic | fuel *)
open Model
open Vh

let zs = z_of_string
let hz = hex_of_z
let zb h = List.map b2z (bytes_of_hex h)
let hexz (l : z list) = hex_of_bytes (List.map z2b l)

(* tail-recursive unary fuel *)
let mk_fuel (n : int) : nat = let rec go acc i = if i <= 0 then acc else go (S acc) (i - 1) in go O n
(* the fuel value is immutable: it is built once per size and shared by all requests.  Any fuel
   above the gas budget gives the same result (InterpProofs.v: run_total / fuel monotonicity), so
   every request simply gets the cap. *)
let fuel_cache : (int, nat) Hashtbl.t = Hashtbl.create 4
let fuel_of (n : int) : nat =
  match Hashtbl.find_opt fuel_cache n with
  | Some f -> f
  | None -> let f = mk_fuel n in Hashtbl.replace fuel_cache n f; f

let zkey (x : z) = let s = hz x in (String.length s, s)
let sort_by_z (f : 'a -> z) (l : 'a list) = List.sort (fun a b -> compare (zkey (f a)) (zkey (f b))) l

let parse_storage (s : string) : (z * z) list =
  if s = "" || s = "-" then [] else
  List.map (fun kv -> match split_on '=' kv with [k; v] -> (zs k, zs v) | _ -> failwith "storage") (split_on ',' s)

let parse_accts (s : string) : (z * account) list =
  if s = "-" then [] else
  List.map (fun a -> match split_on ':' a with
    | [addr; nonce; bal; code; st; su] ->
      (zs addr, { a_nonce = zs nonce; a_balance = zs bal; a_code = zb code; a_storage = parse_storage st; a_suicided = (su = "1") })
    | _ -> failwith ("account " ^ a)) (split_on ';' s)

let parse_precomp (s : string) : (string * (z * z list option)) list =
  if s = "-" then [] else
  List.map (fun a -> match split_on ':' a with
    | [addr; input; gas; ok; out] -> (hz (zs addr) ^ "/" ^ hexz (zb input), (zs gas, if ok = "ok" then Some (zb out) else None))
    | _ -> failwith ("precomp " ^ a)) (split_on ';' s)

let class_of_verr = function
  | ErrGasUintOverflow -> "gas-uint-overflow" | ErrReturnDataOutOfBounds -> "returndata-oob"
  | ErrInvalidJump -> "invalid-jump" | ErrInvalidOpcode -> "invalid-opcode"
  | ErrStackUnderflow -> "stack-underflow" | ErrStackLimit -> "stack-limit" | ErrOutOfGas -> "oog"
let class_of_ierr = function
  | IE_op e -> class_of_verr e | IE_WriteProtection -> "write-protection" | IE_Depth -> "depth"
  | IE_InsufficientBalance -> "insufficient-balance" | IE_Collision -> "collision"
  | IE_CodeStoreOutOfGas -> "codestore-oog" | IE_MaxCodeSize -> "max-code-size"
  | IE_Precompile -> "precompile" | IE_OracleMissing -> "oracle-missing"

let show_res = function
  | R_ok _ -> "ok" | R_revert _ -> "revert" | R_err (e, _) -> "err:" ^ class_of_ierr e | R_panic -> "panic" | R_fuel -> "fuel"

let is_zero = function Z0 -> true | _ -> false

(* accounts as the implementation shows them after the frame: sorted by address; zero storage slots dropped *)
let show_world (w : world) : string =
  let accts = sort_by_z fst w.w_accts in
  let one (a, acc) =
    let st = sort_by_z fst (List.filter (fun (_, v) -> not (is_zero v)) acc.a_storage) in
    String.concat ":" [hz a; hz acc.a_nonce; hz acc.a_balance; hexz acc.a_code;
                       String.concat "," (List.map (fun (k, v) -> hz k ^ "=" ^ hz v) st);
                       (if acc.a_suicided then "1" else "0")] in
  if accts = [] then "-" else String.concat ";" (List.map one accts)

let show_logs (w : world) : string =
  let one l = String.concat ":" [hz l.l_addr; String.concat "," (List.map hz l.l_topics); hexz l.l_data] in
  if w.w_logs = [] then "-" else String.concat ";" (List.map one (List.rev w.w_logs))

let rec take n l = if n <= 0 then [] else match l with [] -> [] | h :: t -> h :: take (n - 1) t
let show_trace (tr : tentry list) : string =
  let one t = String.concat ":" [hz t.t_depth; hz t.t_pc; hz t.t_op; hz t.t_gas; hz t.t_cost; hz t.t_mem;
                                 String.concat "," (List.map hz (take 3 t.t_stack))] in
  if tr = [] then "-" else String.concat ";" (List.rev_map one tr)

(* GetHash of the harness: (n + 1) * 0x9e3779b97f4a7c15 *)
let golden = zs "0x9e3779b97f4a7c15"
let blockhash (n : z) : z = Z.mul (Z.add n (zs "1")) golden

let handle toks =
  match toks with
  | [kind; height; gas; value; caller; target; data; trace; fuelcap; origin; gasprice; coinbase; gaslimit; time; difficulty; accts; precomp] ->
    let tbl = parse_precomp precomp in
    let oracle (a : z) (input : z list) = List.assoc_opt (hz a ^ "/" ^ hexz input) tbl in
    let e = env_of mainnet_cfg (zs height) (zs origin) (zs gasprice) (zs coinbase) (zs gaslimit) (zs time) (zs difficulty)
              blockhash oracle (trace = "1") in
    let w = { w_accts = parse_accts accts; w_logs = []; w_refund = Z0 } in
    let fuel = fuel_of (int_of_string fuelcap) in
    let o = (match kind with
      | "call" -> call_top fuel e w (zs caller) (zs target) (zb data) (zs gas) (zs value)
      | "create" -> create_top fuel e w (zs caller) (zb data) (zs gas) (zs value)
      | _ -> failwith "kind") in
    String.concat " " [show_res o.o_res; hz o.o_gas; hexz (ret_of o.o_res); hz o.o_addr; hz o.o_world.w_refund;
                       show_logs o.o_world; show_world o.o_world; show_trace o.o_trace]
  | ["createaddr"; a; n] -> hz (create_address (zs a) (zs n))
  | ["keccak"; d] -> hexz (hashZ (zb d))
  | _ -> "driver-error unknown-command"

let () = self_test b2n; serve handle
