(* modelrun for the keystore area (C20): one request per line, one answer per line.
   KDF / AES / key->address results are oracle tables recorded by the harness from
   the real implementation; a query outside a table answers "driver-error oracle-outside". *)
open Model
open Vh

let parse_jv (s : string) : jv =
  if s = "M" then JMissing else if s = "N" then JNull else if s = "O" then JObj else if s = "X" then JOther
  else if String.length s >= 2 && s.[1] = ':' then begin
    let body = String.sub s 2 (String.length s - 2) in
    match s.[0] with
    | 'S' -> JStr (bytes_of_hex body)
    | 'I' -> JNum (true, z_of_string body)
    | 'F' -> JNum (false, z_of_string body)
    | _ -> failwith "jv syntax"
  end else failwith "jv syntax"

let render_jv = function
  | JMissing -> "M" | JNull -> "N" | JObj -> "O" | JOther -> "X"
  | JStr s -> "S:" ^ hex_of_bytes s
  | JNum (true, z) -> "I:" ^ hex_of_z z
  | JNum (false, z) -> "F:" ^ hex_of_z z

let parse_keyfile (s : string) : keyfile =
  match List.map parse_jv (String.split_on_char ',' s) with
  | [a; b; c; d; e; f; g; h; i; j; k; l; m; n; o; p; q; r; t] ->
    { kf_version_exact = a; kf_version = b; kf_address = c; kf_id = d; kf_crypto = e; kf_cipher = f;
      kf_ciphertext = g; kf_cipherparams = h; kf_iv = i; kf_kdf = j; kf_kdfparams = k; kf_mac = l;
      kp_salt = m; kp_dklen = n; kp_n = o; kp_r = p; kp_p = q; kp_c = r; kp_prf = t }
  | _ -> failwith "keyfile syntax"

let render_keyfile (f : keyfile) : string =
  String.concat "," (List.map render_jv
    [f.kf_version_exact; f.kf_version; f.kf_address; f.kf_id; f.kf_crypto; f.kf_cipher; f.kf_ciphertext;
     f.kf_cipherparams; f.kf_iv; f.kf_kdf; f.kf_kdfparams; f.kf_mac; f.kp_salt; f.kp_dklen; f.kp_n; f.kp_r;
     f.kp_p; f.kp_c; f.kp_prf])

let parse_table (s : string) : (string * string) list =
  if s = "-" then [] else
  List.map (fun e -> match String.split_on_char '=' e with
      | [k; v] -> (k, v) | _ -> failwith "table syntax") (String.split_on_char ';' s)
let lookup tbl k = match List.assoc_opt k tbl with Some v -> v | None -> failwith ("oracle-outside " ^ k)

let pres_of (v : string) : pres =
  if v = "err" then PErr else if v = "panic" then PPanic
  else if String.length v > 3 && String.sub v 0 3 = "ok:" then POk (bytes_of_hex (String.sub v 3 (String.length v - 3)))
  else failwith "pres syntax"

let kdf_of tbl : kdf_alg -> bytes -> bytes -> z -> pres = fun alg pass salt dklen ->
  let a = match alg with
    | KScrypt (n, r, p) -> "scrypt/" ^ hex_of_z n ^ "/" ^ hex_of_z r ^ "/" ^ hex_of_z p
    | KPbkdf2 c -> "pbkdf2/" ^ hex_of_z c in
  pres_of (lookup tbl (a ^ ":" ^ hex_of_bytes pass ^ ":" ^ hex_of_bytes salt ^ ":" ^ hex_of_z dklen))
let aes_of tbl : bytes -> bytes -> bytes -> pres = fun key iv inp ->
  pres_of (lookup tbl (hex_of_bytes key ^ ":" ^ hex_of_bytes iv ^ ":" ^ hex_of_bytes inp))
let addr_of tbl : bytes -> bytes = fun key -> bytes_of_hex (lookup tbl (hex_of_bytes key))

let str_res = function
  | Ok (k, a) -> "ok " ^ hex_of_bytes k ^ " " ^ hex_of_bytes a
  | Err -> "err" | Panic -> "panic"

(* one KeyStore history: ops are ':'-separated tokens, passphrases in hex *)
let parse_op (t : string) : ks_op =
  match String.split_on_char ':' t with
  | ["new"; p] -> OCreate (bytes_of_hex p)
  | ["tun"; i; p; d] -> OTimedUnlock (nat_of_int (int_of_string i), bytes_of_hex p, n_of_string d)
  | ["lock"; i] -> OLock (nat_of_int (int_of_string i))
  | ["upd"; i; o; n] -> OUpdate (nat_of_int (int_of_string i), bytes_of_hex o, bytes_of_hex n)
  | ["exp"; i; p] -> OExport (nat_of_int (int_of_string i), bytes_of_hex p)
  | ["del"; i; p] -> ODelete (nat_of_int (int_of_string i), bytes_of_hex p)
  | ["sig"; i] -> OSign (nat_of_int (int_of_string i))
  | ["swp"; i; p] -> OSignWithPass (nat_of_int (int_of_string i), bytes_of_hex p)
  | ["wait"; d] -> OWait (n_of_string d)
  | _ -> failwith ("op syntax " ^ t)

let ks_history (ops : string list) : string =
  let (_, outs) = List.fold_left (fun (s, acc) t ->
      let (s', r) = ks_step s (parse_op t) in
      let locks = String.concat "" (List.map (fun a -> if is_unlocked s'.ks_now a then "u" else "l") s'.ks_accts) in
      (s', ((if r then "ok" else "err") ^ ":" ^ locks) :: acc)) (ks_init, []) ops in
  String.concat " " (List.rev outs)

(* the concrete KeyStore (StoreModel.cstep): ops are '|'-separated tokens *)
let parse_cop (t : string) : cop =
  let ni s = nat_of_int (int_of_string s) in
  match String.split_on_char '|' t with
  | ["create"; d; id; p; salt; iv] -> CCreate (n_of_string d, bytes_of_hex id, bytes_of_hex p, bytes_of_hex salt, bytes_of_hex iv)
  | ["import"; f; p; np; id; salt; iv] -> CImport (parse_keyfile f, bytes_of_hex p, bytes_of_hex np, bytes_of_hex id, bytes_of_hex salt, bytes_of_hex iv)
  | ["tun"; i; p; d] -> CTimedUnlock (ni i, bytes_of_hex p, n_of_string d)
  | ["lock"; i] -> CLock (ni i)
  | ["upd"; i; o; n; salt; iv] -> CUpdate (ni i, bytes_of_hex o, bytes_of_hex n, bytes_of_hex salt, bytes_of_hex iv)
  | ["exp"; i; p; np; salt; iv] -> CExport (ni i, bytes_of_hex p, bytes_of_hex np, bytes_of_hex salt, bytes_of_hex iv)
  | ["del"; i; p] -> CDelete (ni i, bytes_of_hex p)
  | ["sig"; i] -> CSign (ni i)
  | ["swp"; i; p] -> CSignWithPass (ni i, bytes_of_hex p)
  | ["wait"; d] -> CWait (n_of_string d)
  | ["put"; i; f] -> CPutFile (ni i, parse_keyfile f)
  | _ -> failwith ("cop syntax " ^ t)

let cks_history n p kt ct bt at (ops : string list) : string =
  let kdf = kdf_of (parse_table kt) and ctr = aes_of (parse_table ct) and cbc = aes_of (parse_table bt)
  and addr = addr_of (parse_table at) in
  let (_, outs) = List.fold_left (fun (s, acc) t ->
      let ((s', r), fo) = cstep kdf ctr cbc keccak256 addr (z_of_string n) (z_of_string p) s (parse_cop t) in
      let locks = String.concat "" (List.map (fun a -> if clock_unlocked s'.cs_now a.c_lock then "u" else "l") s'.cs_accts) in
      let rs = match r with ROk -> "ok" | RErr -> "err" | RPanic -> "panic" in
      let fs = match fo with Some f -> render_keyfile f | None -> "-" in
      (s', (rs ^ ";" ^ locks ^ ";" ^ fs) :: acc)) (cs_init, []) ops in
  String.concat " " (List.rev outs)

let handle (toks : string list) : string =
  match toks with
  | ["keccak"; h] -> hex_of_bytes (keccak256 (bytes_of_hex h))
  | ["hexdec"; s] -> (match hex_decode (bytes_of_hex s) with Some b -> "ok " ^ hex_of_bytes b | None -> "err")
  | ["hexenc"; s] -> hex_of_bytes (hex_encode (bytes_of_hex s))
  | ["padded"; d] -> hex_of_bytes (padded_big_bytes (nat_of_int 32) (n_of_string d))
  | ["decrypt"; f; pass; kt; ct; bt; at] ->
    str_res (decrypt_key (kdf_of (parse_table kt)) (aes_of (parse_table ct)) (aes_of (parse_table bt)) keccak256
               (addr_of (parse_table at)) (parse_keyfile f) (bytes_of_hex pass))
  | ["getkey"; addr; f; pass; kt; ct; bt; at] ->
    str_res (get_key (kdf_of (parse_table kt)) (aes_of (parse_table ct)) (aes_of (parse_table bt)) keccak256
               (addr_of (parse_table at)) (bytes_of_hex addr) (parse_keyfile f) (bytes_of_hex pass))
  | ["encrypt"; d; addr; id; pass; salt; iv; n; p; kt; ct] ->
    (match encrypt_key (kdf_of (parse_table kt)) (aes_of (parse_table ct)) keccak256 (n_of_string d)
             (bytes_of_hex addr) (bytes_of_hex id) (bytes_of_hex pass) (bytes_of_hex salt) (bytes_of_hex iv)
             (z_of_string n) (z_of_string p) with
     | Ok f -> "ok " ^ render_keyfile f | Err -> "err" | Panic -> "panic")
  | "ks" :: ops -> ks_history ops
  | "cks" :: n :: p :: kt :: ct :: bt :: at :: ops -> cks_history n p kt ct bt at ops
  | _ -> "driver-error unknown-command"

let () = self_test b2n; serve handle
