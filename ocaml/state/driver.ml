(* modelrun for the state area (C09): one request per line, one answer per line.
   Holds a table of model StateDBs (sid -> state), the shared node database
   (code store + committed account-trie contents) and instantiates the model's
   hash parameter H with the Gallina Keccak-256. *)
open Model
open Vh

(* memoised: the model calls H [] (emptyCodeHash) in every emptiness test *)
let htab : (bytes, bytes) Hashtbl.t = Hashtbl.create 64
let h (x : bytes) : bytes =
  match Hashtbl.find_opt htab x with
  | Some y -> y
  | None -> let y = keccak256 x in Hashtbl.replace htab x y; y

let states : (int, state) Hashtbl.t = Hashtbl.create 16
let codes : (bytes * bytes) list ref = ref []
let commits : (n * acct) list array ref = ref [||]

let get sid = try Hashtbl.find states sid with Not_found -> failwith "no-such-state"
(* the node database is shared between all StateDBs: thread it through each op *)
let load sid = with_codes !codes (get sid)
let store sid s = codes := s.st_codes; Hashtbl.replace states sid s

let nstr n = hex_of_n n
let zstr z = hex_of_z z
let bstr b = if b then "1" else "0"

let render_smap (m : (n * n) list) =
  String.concat "," (List.map (fun (k, v) -> nstr k ^ "=" ^ nstr v) m)

let render_trie (t : (n * acct) list) : string =
  "{" ^ String.concat ";" (List.map (fun (a, ac) ->
    nstr a ^ ":" ^ nstr ac.a_nonce ^ ":" ^ zstr ac.a_bal ^ ":" ^ hex_of_bytes ac.a_ch ^ ":[" ^ render_smap ac.a_root ^ "]") t) ^ "}"

let ints s = List.map n_of_string (split_on ',' s)

let render_log (l : logrec) =
  nstr l.lg_data ^ "/" ^ nstr l.lg_thash ^ "/" ^ nstr l.lg_bhash ^ "/" ^ nstr l.lg_txindex ^ "/" ^ nstr l.lg_index

let observe (s : state) addrs slots thashes pres : string =
  let b = Buffer.create 1024 in
  List.iter (fun a ->
    let code = match get_code h s a with Some c -> hex_of_bytes c | None -> "0x" in
    Buffer.add_string b (Printf.sprintf "A%s:e=%s,m=%s,b=%s,n=%s,h=%s,c=%s,z=%s,s=%s,st=%s"
      (nstr a) (bstr (exist s a)) (bstr (is_empty h s a)) (zstr (get_balance s a)) (nstr (get_nonce s a))
      (hex_of_bytes (get_code_hash s a)) code (nstr (get_code_size s a)) (bstr (has_suicided s a))
      (String.concat "/" (List.map (fun k -> nstr (get_state s a k)) slots)));
    (* hidden state of the live object; an absent object = a freshly loaded one *)
    (match aget a s.st_live with
     | Some o -> Buffer.add_string b (Printf.sprintf ",arm=%s,del=%s,tch=%s,dc=%s,ds=%s"
                   (bstr o.o_armed) (bstr o.o_deleted) (bstr o.o_touched) (bstr o.o_dirtycode) (render_smap o.o_dirtyst))
     | None -> Buffer.add_string b ",arm=1,del=0,tch=0,dc=0,ds=");
    Buffer.add_string b (Printf.sprintf ",d=%s " (bstr (nmem a s.st_dirty)))) addrs;
  Buffer.add_string b ("R=" ^ nstr (get_refund s));
  Buffer.add_string b (" LS=" ^ nstr s.st_logsize);
  List.iter (fun th -> Buffer.add_string b (" L" ^ nstr th ^ "=" ^ String.concat "," (List.map render_log (get_logs s th)))) thashes;
  List.iter (fun p -> Buffer.add_string b (" P" ^ nstr p ^ "=" ^ (match aget p s.st_preimages with Some x -> hex_of_bytes x | None -> "-"))) pres;
  Buffer.add_string b (" jl=" ^ string_of_int (List.length s.st_journal));
  Buffer.add_string b (" revs=" ^ String.concat "," (List.map (fun (id, j) -> nstr id ^ ":" ^ nstr j) s.st_revs));
  Buffer.add_string b (" ndirty=" ^ string_of_int (List.length s.st_dirty));
  Buffer.contents b

let bool_of s = (s = "1" || s = "true")
let lastdb : (int, bytes list * bytes list) Hashtbl.t = Hashtbl.create 8

(* ---- the abstract system of State/StateAbs.v, run next to the model: (re)seeded with abs_state
   whenever a StateDB has no live snapshot by construction (new, reopen, Copy destination, after
   Finalise / IntermediateRoot / Commit), stepped with astep on every other operation ---- *)
let astates : (int, astate) Hashtbl.t = Hashtbl.create 16
let aseed sid = Hashtbl.replace astates sid (abs_state h (load sid))
let op_of (toks : string list) : op option =
  match toks with
  | ["create"; a] -> Some (OCreate (n_of_string a))
  | ["addbal"; a; v] -> Some (OAddBal (n_of_string a, z_of_string v))
  | ["subbal"; a; v] -> Some (OSubBal (n_of_string a, z_of_string v))
  | ["setbal"; a; v] -> Some (OSetBal (n_of_string a, z_of_string v))
  | ["setnonce"; a; v] -> Some (OSetNonce (n_of_string a, n_of_string v))
  | ["setcode"; a; c] -> Some (OSetCode (n_of_string a, bytes_of_hex c))
  | ["setstate"; a; k; v] -> Some (OSetState (n_of_string a, n_of_string k, n_of_string v))
  | ["suicide"; a] -> Some (OSuicide (n_of_string a))
  | ["addlog"; d] -> Some (OAddLog (n_of_string d))
  | ["addrefund"; g] -> Some (OAddRefund (n_of_string g))
  | ["addpreimage"; k; p] -> Some (OAddPreimage (n_of_string k, bytes_of_hex p))
  | ["prepare"; th; bh; ti] -> Some (OPrepare (n_of_string th, n_of_string bh, n_of_string ti))
  | ["snapshot"] -> Some OSnapshot
  | ["revert"; id] -> Some (ORevert (n_of_string id))
  | _ -> None
(* returns "" or a marker when the abstract system and the model disagree on panicking *)
let astep_sid sid toks (model_panicked : bool) : string =
  match op_of toks with
  | None -> ""
  | Some o ->
    (match Hashtbl.find_opt astates sid with
     | None -> ""
     | Some a ->
       (match astep h a o with
        | Ok a' -> Hashtbl.replace astates sid a'; if model_panicked then " ABSTRACT-DID-NOT-PANIC" else ""
        | Panic -> if model_panicked then "" else " ABSTRACT-PANICKED"))

let aobserve sid addrs slots thashes pres : string =
  let a = Hashtbl.find astates sid in
  let d = a.as_data in
  let b = Buffer.create 1024 in
  List.iter (fun ad ->
    let (bal, nonce, ch, code, sui) =
      match a_view d ad with
      | Some v -> (v.v_balance, v.v_nonce, v.v_codehash, (match v.v_code with Some c -> c | None -> []), v.v_suicided)
      | None -> (Z0, N0, bytes_of_hex "0x0000000000000000000000000000000000000000000000000000000000000000", [], false) in
    Buffer.add_string b (Printf.sprintf "A%s:e=%s,m=%s,b=%s,n=%s,h=%s,c=%s,z=%s,s=%s,st=%s "
      (nstr ad) (bstr (a_exist d ad)) (bstr (a_empty h d ad)) (zstr bal) (nstr nonce)
      (hex_of_bytes ch) (hex_of_bytes code) (nstr (n_of_int (List.length code))) (bstr sui)
      (String.concat "/" (List.map (fun k -> nstr (a_store d ad k)) slots)))) addrs;
  Buffer.add_string b ("R=" ^ nstr d.ad_refund);
  List.iter (fun th -> Buffer.add_string b (" L" ^ nstr th ^ "=" ^ String.concat "," (List.map render_log (d.ad_logs th)))) thashes;
  List.iter (fun p -> Buffer.add_string b (" P" ^ nstr p ^ "=" ^ (match d.ad_pre p with Some x -> hex_of_bytes x | None -> "-"))) pres;
  Buffer.contents b

let do_op_model sid (toks : string list) : string =
  let s = load sid in
  let ok s' = store sid s'; "ok" in
  match toks with
  | ["create"; a] -> ok (create_account h s (n_of_string a))
  | ["addbal"; a; v] -> ok (add_balance h s (n_of_string a) (z_of_string v))
  | ["subbal"; a; v] -> ok (sub_balance h s (n_of_string a) (z_of_string v))
  | ["setbal"; a; v] -> ok (set_balance h s (n_of_string a) (z_of_string v))
  | ["setnonce"; a; v] -> ok (set_nonce h s (n_of_string a) (n_of_string v))
  | ["setcode"; a; c] -> ok (set_code h s (n_of_string a) (bytes_of_hex c))
  | ["setstate"; a; k; v] -> ok (set_state h s (n_of_string a) (n_of_string k) (n_of_string v))
  | ["suicide"; a] -> let (s', r) = suicide s (n_of_string a) in store sid s'; if r then "true" else "false"
  | ["addlog"; d] -> ok (add_log s (n_of_string d))
  | ["addrefund"; g] -> ok (add_refund s (n_of_string g))
  | ["addpreimage"; k; p] -> ok (add_preimage s (n_of_string k) (bytes_of_hex p))
  | ["prepare"; th; bh; ti] -> ok (prepare s (n_of_string th) (n_of_string bh) (n_of_string ti))
  | ["snapshot"] -> let (s', id) = snapshot s in store sid s'; "id " ^ nstr id
  | ["revert"; id] -> (match revert_to s (n_of_string id) with Ok s' -> ok s' | Panic -> "panic")
  | ["finalise"; b] -> (match finalise h (bool_of b) s with Ok s' -> ok s' | Panic -> "panic")
  | ["iroot"; b] -> (match intermediate_root h (bool_of b) s with
                     | Ok (s', t) -> store sid s'; "root " ^ render_trie t
                     | Panic -> "panic")
  | ["commit"; b] -> (match commit h (bool_of b) s with
                      | Ok (s', t) -> store sid s';
                        (* node-database side (State/StateDb.v): keys Commit inserts, keys the root references *)
                        Hashtbl.replace lastdb sid (commit_db_keys h (bool_of b) s t, refs h t);
                        commits := Array.append !commits [| t |];
                        "root " ^ render_trie t ^ " " ^ string_of_int (Array.length !commits - 1)
                      | Panic -> "panic")
  | _ -> "driver-error unknown-op"

(* ManagedState instances; the inner StateDB of instance mid is mirrored under sid 1000+mid for `obs` *)
let mstates : (int, mstate) Hashtbl.t = Hashtbl.create 8
let mload mid = let ms = Hashtbl.find mstates mid in { ms with ms_db = with_codes !codes ms.ms_db }
let mstore mid ms = codes := ms.ms_db.st_codes; Hashtbl.replace mstates mid ms; Hashtbl.replace states (1000 + mid) ms.ms_db

let do_mop mid (toks : string list) : string =
  let ms = mload mid in
  match toks with
  | ["newnonce"; a] -> let (ms', n) = ms_new_nonce h ms (n_of_string a) in mstore mid ms'; "n " ^ nstr n
  | ["getnonce"; a] -> let (ms', n) = ms_get_nonce h ms (n_of_string a) in mstore mid ms'; "n " ^ nstr n
  | ["setnonce"; a; n] -> mstore mid (ms_set_nonce h ms (n_of_string a) (n_of_string n)); "ok"
  | ["removenonce"; a; n] -> mstore mid (ms_remove_nonce h ms (n_of_string a) (n_of_string n)); "ok"
  | ["has"; a] -> bstr (ms_has ms (n_of_string a))
  | _ -> "driver-error unknown-mop"

let mobserve mid addrs =
  let ms = mload mid in
  String.concat " " (List.map (fun a ->
    match aget a ms.ms_accts with
    | Some acc -> Printf.sprintf "M%s:%s/%s" (nstr a) (nstr acc.m_nstart) (String.concat "" (List.map bstr acc.m_nonces))
    | None -> Printf.sprintf "M%s:-" (nstr a)) addrs)

let do_op sid (toks : string list) : string =
  let res = do_op_model sid toks in
  match toks with
  | ("finalise" | "iroot" | "commit") :: _ -> if res <> "panic" then aseed sid; res
  | _ -> res ^ astep_sid sid toks (res = "panic")

let handle (toks : string list) : string =
  match toks with
  | ["dbkeys"; sid] ->
    (match Hashtbl.find_opt lastdb (int_of_string sid) with
     | Some (ks, rs) ->
       let hx l = String.concat "," (List.sort_uniq compare (List.map hex_of_bytes l)) in
       "ins=" ^ hx ks ^ " refs=" ^ hx rs
     | None -> "none")
  | ["alive"; sid; id] ->
    (match Hashtbl.find_opt astates (int_of_string sid) with
     | Some a -> bstr (List.exists (fun (i, _) -> int_of_n i = int_of_string id) a.as_snaps)
     | None -> "?")
  | ["aobs"; sid; addrs; slots; thashes; pres] ->
    aobserve (int_of_string sid) (ints addrs) (ints slots) (ints thashes) (ints pres)
  | ["manage"; sid; mid] ->
    (match manage_state (load (int_of_string sid)) with
     | Ok ms -> mstore (int_of_string mid) ms; "ok"
     | Panic -> "panic")
  | "mop" :: mid :: rest -> do_mop (int_of_string mid) rest
  | ["mobs"; mid; addrs] -> mobserve (int_of_string mid) (ints addrs)
  | ["keccak"; x] -> hex_of_bytes (keccak256 (bytes_of_hex x))
  | ["reset"] -> Hashtbl.reset states; Hashtbl.reset mstates; Hashtbl.reset astates; codes := []; commits := [||]; "ok"
  | ["new"; sid] -> Hashtbl.replace states (int_of_string sid) (new_state [] !codes); aseed (int_of_string sid); "ok"
  | ["reopen"; sid; k] ->
    let k = int_of_string k in
    if k < 0 || k >= Array.length !commits then "err"
    else (Hashtbl.replace states (int_of_string sid) (new_state (!commits).(k) !codes); aseed (int_of_string sid); "ok")
  | ["copy"; src; dst] ->
    (match copy (load (int_of_string src)) with
     | Ok s' -> Hashtbl.replace states (int_of_string dst) s'; aseed (int_of_string dst); "ok"
     | Panic -> "panic")
  | "op" :: sid :: rest -> do_op (int_of_string sid) rest
  | ["realroot"; sid] -> hex_of_bytes (state_root h (load (int_of_string sid)).st_trie)
  | ["obs"; sid; addrs; slots; thashes; pres] ->
    observe (load (int_of_string sid)) (ints addrs) (ints slots) (ints thashes) (ints pres)
  | _ -> "driver-error unknown-command"

let () = self_test b2n; serve handle
