(* modelrun for the bloom / log-filter area (C16): one request per line, one answer per line.
   State: the current chain (list of blocks: header bloom + receipts' logs), appended by `block`.
   Glue only: parsing/printing, memoisation of the pure functions keccak256 and
   index_of_chain (same results, fewer recomputations), MD5 digests of long answers. *)
open Model
open Vh

(* H = extracted Lib.Keccak.keccak256, memoised on the input *)
let hmemo : (string, byte list) Hashtbl.t = Hashtbl.create 1024
let h (x : byte list) : byte list =
  let k = hex_of_bytes x in
  match Hashtbl.find_opt hmemo k with
  | Some r -> r
  | None -> let r = keccak256 x in Hashtbl.add hmemo k r; r

let bloom_hex (b : n) = hex_of_bytes (bloom_bytes b)
(* all-zero blooms (most blocks) are recognised on the text: same value, no big-number arithmetic *)
let bloom_of_hex (s : string) : n =
  let z = ref true in
  String.iteri (fun i ch -> if ch <> '0' && not (i = 1 && (ch = 'x' || ch = 'X')) then z := false) s;
  if !z then N0 else n_of_be (bytes_of_hex s)

(* log := addr:topics:data:tag   topics := - | hex,hex   receipt := e | log;log   receipts := none | receipt|receipt *)
let parse_log (s : string) : log =
  match String.split_on_char ':' s with
  | [a; t; d; tag] ->
    { l_addr = bytes_of_hex a;
      l_topics = (if t = "-" then [] else List.map bytes_of_hex (String.split_on_char ',' t));
      l_data = bytes_of_hex d; l_tag = n_of_string tag }
  | _ -> failwith "parse_log"
let parse_receipt (s : string) : log list =
  if s = "e" then [] else List.map parse_log (String.split_on_char ';' s)
let parse_receipts (s : string) : log list list =
  if s = "none" then [] else List.map parse_receipt (String.split_on_char '|' s)
(* addrs := - | hex,hex     tops := - | pos/pos   pos := * | hex,hex *)
let parse_addrs (s : string) : byte list list =
  if s = "-" then [] else List.map bytes_of_hex (String.split_on_char ',' s)
let parse_tops (s : string) : byte list list list =
  if s = "-" then [] else
    List.map (fun p -> if p = "*" then [] else List.map bytes_of_hex (String.split_on_char ',' p))
      (String.split_on_char '/' s)

let tags (l : log list) : string =
  if l = [] then "-" else String.concat "," (List.map (fun x -> string_of_int (int_of_n x.l_tag)) l)
let nums (l : n list) : string =
  if l = [] then "-" else String.concat "," (List.map (fun x -> string_of_int (int_of_n x)) l)
let sbool b = if b then "true" else "false"
let vec_hex (v : bool list) = hex_of_bytes (pack v)

let gerr = function
  | ErrSectionOutOfBounds -> "err-oob"
  | ErrUnexpectedIndex -> "err-index"
  | ErrNotFullyGenerated -> "err-notfull"
  | ErrNotMultipleOf8 -> "err-mult8"
  | PanicIndexOutOfRange -> "panic"

(* chain state *)
let rev_chain : block list ref = ref []
let chain_cache : block list option ref = ref None
let imemo : (int * int * int, bool list) Hashtbl.t = Hashtbl.create 1024
let cur_chain () =
  match !chain_cache with
  | Some c -> c
  | None -> let c = List.rev !rev_chain in chain_cache := Some c; c
let invalidate () = chain_cache := None; Hashtbl.reset imemo
let index_for (size : n) : n -> n -> bool list =
  let c = cur_chain () in
  let isz = int_of_n size in
  fun bit s ->
    let k = (isz, int_of_n bit, int_of_n s) in
    match Hashtbl.find_opt imemo k with
    | Some r -> r
    | None -> let r = index_of_chain c size bit s in Hashtbl.add imemo k r; r

(* gen SIZE op...   op := a:INDEX:BLOOMHEX | s:IDX | r:IDX *)
let run_gen (size : string) (ops : string list) : string =
  match new_generator (n_of_string size) with
  | GErr e -> gerr e
  | GOk g0 ->
    let g = ref g0 in
    let rowhex r = vec_hex (row_bits (n_of_string size) r) in
    let out = List.map (fun op ->
      match String.split_on_char ':' op with
      | ["a"; i; b] ->
        (match add_bloom !g (n_of_string i) (bloom_of_hex b) with
         | GOk g' -> g := g'; "ok"
         | GErr e -> gerr e)
      | ["s"; i] -> (match bitset !g (n_of_string i) with GOk v -> rowhex v | GErr e -> gerr e)
      | ["r"; i] -> rowhex (gen_row !g (nat_of_int (int_of_string i)))
      | _ -> failwith "gen op") ops in
    "new " ^ String.concat " " out

let blooms_of_section (size : int) (s : int) : n list =
  let c = Array.of_list (cur_chain ()) in
  let l = ref [] in
  for i = (s + 1) * size - 1 downto s * size do
    if i < Array.length c then l := c.(i).b_bloom :: !l
  done; !l

(* ---- the ChainIndexer state machine (IndexerModel): one world, driven op by op ---- *)
let ix_world : world ref = ref { w_chain = []; w_queue = []; w_ix = ix_init }
let ix_size = ref N0 and ix_confirms = ref N0
let ix_commit : (n -> n list -> n list gres) ref = ref process_section
(* block := hash:parent:bloomhex (hash/parent hex numbers) *)
let parse_hblock (t : string) : hblock =
  match String.split_on_char ':' t with
  | [h; p; b] -> { hb_hash = n_of_string h; hb_parent = n_of_string p; hb_block = { b_bloom = bloom_of_hex b; b_receipts = [] } }
  | _ -> failwith "parse_hblock"
let rec take k l = if k <= 0 then [] else (match l with [] -> [] | x :: t -> x :: take (k - 1) t)
let ix_render () : string =
  let w = !ix_world in
  let st = w.w_ix in
  let heads = String.concat "," (List.init (int_of_n st.ix_stored + 2) (fun s -> hex_of_n (shead st (n_of_int s)))) in
  let q = String.concat "," (List.map (function NReorg a -> "R" ^ string_of_int (int_of_n a) | NHead h -> "H" ^ string_of_int (int_of_n h)) w.w_queue) in
  Printf.sprintf "known=%d stored=%d pending=%s heads=%s queue=%s" (int_of_n st.ix_known) (int_of_n st.ix_stored)
    (match st.ix_pending with None -> "-" | Some (s, _) -> string_of_int (int_of_n s)) heads (if q = "" then "-" else q)
let ix_apply (o : op) = ix_world := apply_op !ix_commit !ix_size !ix_confirms !ix_world o; ix_render ()

let handle (toks : string list) : string =
  match toks with
  (* ixinit rows|real SIZE CONFIRMS block... *)
  (* common/bitutil: CompressBytes / DecompressBytes(data, target) *)
  | ["compress"; d] -> hex_of_bytes (compress (bytes_of_hex d))
  | ["decompress"; d; target] ->
    (match decompress (bytes_of_hex d) (nat_of_int (int_of_string target)) with
     | DOk out -> "ok " ^ hex_of_bytes out
     | DErr ErrMissingData -> "err-missing"
     | DErr ErrUnreferencedData -> "err-unreferenced"
     | DErr ErrExceededTarget -> "err-exceeded"
     | DErr ErrZeroContent -> "err-zero")
  | "ixinit" :: mode :: size :: confirms :: blocks ->
    ix_commit := (if mode = "rows" then process_section_rows else process_section);
    ix_size := n_of_string size; ix_confirms := n_of_string confirms;
    ix_world := { w_chain = List.map parse_hblock blocks; w_queue = []; w_ix = ix_init }; ix_render ()
  (* ixchain KEEP block...: the canonical chain becomes its first KEEP blocks followed by the given ones *)
  | "ixchain" :: keep :: blocks ->
    ix_apply (OpChain (take (int_of_string keep) !ix_world.w_chain @ List.map parse_hblock blocks))
  | ["ixdeliver"] -> ix_apply OpDeliver
  | ["ixbegin"] -> ix_apply OpBegin
  | ["ixend"] -> ix_apply OpEnd
  (* the vector the filters would be served for (bit, section): packed row, or none *)
  | ["ixrow"; bit; s] ->
    let w = !ix_world in
    let sn = n_of_string s in
    let h = canon_hash w.w_chain (N.sub (N.mul (N.add sn (n_of_int 1)) !ix_size) (n_of_int 1)) in
    (match get_row w.w_ix (nat_of_int (int_of_string bit)) sn h with
     | Some row -> vec_hex (row_bits !ix_size row)
     | None -> "none")
  | ["keccak"; x] -> hex_of_bytes (keccak256 (bytes_of_hex x))
  | ["bloom9"; x] -> bloom_hex (bloom9 h (bytes_of_hex x))
  | ["idx"; x] ->
    let ((i, j), k) = calc_bloom_indexes h (bytes_of_hex x) in
    Printf.sprintf "%d %d %d" (int_of_n i) (int_of_n j) (int_of_n k)
  | ["logsbloom"; r] -> bloom_hex (logs_bloom h (parse_receipt r))
  | ["createbloom"; rs] -> bloom_hex (create_bloom h (parse_receipts rs))
  | ["lookup"; b; x] -> sbool (bloom_lookup h (bloom_of_hex b) (bytes_of_hex x))
  | ["filterlogs"; r; a; t] -> tags (filter_logs (parse_receipt r) (parse_addrs a) (parse_tops t))
  | ["bloomfilter"; b; a; t] -> sbool (bloom_filter h (bloom_of_hex b) (parse_addrs a) (parse_tops t))
  | "gen" :: size :: ops -> run_gen size ops
  | ["reset"] -> rev_chain := []; invalidate (); "ok"
  (* keep the first n blocks (a reorg replaces the rest) *)
  | ["truncate"; n] ->
    let rec drop i l = if i <= 0 then l else (match l with [] -> [] | _ :: t -> drop (i - 1) t) in
    rev_chain := drop (List.length !rev_chain - int_of_string n) !rev_chain; invalidate (); "ok"
  (* append a block: header bloom as stored, receipts; answers create_bloom of the receipts *)
  | ["block"; b; rs] ->
    let rcs = parse_receipts rs in
    rev_chain := { b_bloom = bloom_of_hex b; b_receipts = rcs } :: !rev_chain;
    invalidate ();
    bloom_hex (create_bloom h rcs)
  | ["len"] -> string_of_int (List.length (cur_chain ()))
  | ["known"; size; confirms] ->
    string_of_int (int_of_n (known_sections (cur_chain ()) (n_of_string size) (n_of_string confirms)))
  | ["stored"; size; confirms] ->
    string_of_int (int_of_n (stored_sections (cur_chain ()) (n_of_string size) (n_of_string confirms)))
  (* Reset/Process/Commit of section s: ok + md5 of the 2048 packed rows, or the error *)
  | ["section"; size; s] ->
    (match process_section (n_of_string size) (blooms_of_section (int_of_string size) (int_of_string s)) with
     | GErr e -> gerr e
     | GOk rows ->
       let b = Buffer.create (1 lsl 20) in
       List.iter (fun r -> Buffer.add_string b (vec_hex (row_bits (n_of_string size) r))) rows;
       "ok " ^ Digest.to_hex (Digest.string (Buffer.contents b)))
  | ["row"; size; s; bit] -> vec_hex (index_for (n_of_string size) (n_of_string bit) (n_of_string s))
  | ["matcher"; size; b; e; a; t] ->
    let sz = n_of_string size in
    nums (matcher_run (index_for sz) sz (matcher_filters h (parse_addrs a) (parse_tops t)) (n_of_string b) (n_of_string e))
  (* the byte-level matcher (packed rows, byte-wise AND/OR/Test, zero-byte skip) *)
  | ["matcherb"; size; b; e; a; t] ->
    let sz = n_of_string size in
    let idxb = let f = index_for sz in fun bit s -> pack (f bit s) in
    nums (matcher_run_b idxb sz (matcher_filters h (parse_addrs a) (parse_tops t)) (n_of_string b) (n_of_string e))
  (* raw NewMatcher clauses: - | clause/clause   clause := * (empty) | alt,alt   alt := nil | hex *)
  | ["matcherraw"; size; b; e; cls] ->
    let sz = n_of_string size in
    let clauses = if cls = "-" then [] else
        List.map (fun cl -> if cl = "*" then [] else
                     List.map (fun a -> if a = "nil" then None else Some (bytes_of_hex a)) (String.split_on_char ',' cl))
          (String.split_on_char '/' cls) in
    nums (matcher_run (index_for sz) sz (new_matcher_filters h clauses) (n_of_string b) (n_of_string e))
  | ["query"; size; sections; b; e; a; t] ->
    let sz = n_of_string size in
    tags (filter_query h (parse_addrs a) (parse_tops t) (cur_chain ()) (index_for sz) sz (n_of_string sections)
            (z_of_string b) (z_of_string e))
  | ["brute"; b; e; a; t] ->
    tags (brute_force (parse_addrs a) (parse_tops t) (cur_chain ()) (z_of_string b) (z_of_string e))
  | _ -> "driver-error unknown-command"

let () = self_test b2n; serve handle
