(* modelrun for the feed area (C19): checks that a recorded trace is a path of
   the LTS of coq/Feed/FeedLTS.v and reports the model's ghost observables.
   request:  run <label> <label> ...      labels: see `parse` below
   answer:   accepted d=<deliveries> nsent=<s:n,...> recv=<c:v.v.v;...> panicked=<b>
           | rejected <index> <label> *)
open Model
open Vh

let nat s = nat_of_int (int_of_string s)

let parse (tok : string) : label =
  match String.split_on_char ':' tok with
  | ["sub"; c; cap] -> LSubscribe (nat c, nat cap)
  | ["call"; s] -> LSendCall (nat s)
  | ["lock"; s] -> LSendLock (nat s)
  | ["merge"; s] -> LSendMerge (nat s)
  | ["bad"; s] -> LSendBadType (nat s)
  | ["ok"; s; c] -> LTryOk (nat s, nat c)
  | ["fail"; s; c] -> LTryFail (nat s, nat c)
  | ["sel"; s] -> LSelectEnter (nat s)
  | ["sent"; s; c] -> LSelSent (nat s, nat c)
  | ["srm"; s; c] -> LSelRemove (nat s, nat c)
  | ["unlock"; s] -> LSendUnlock (nat s)
  | ["ret"; s; n] -> LSendRet (nat s, nat n)
  | ["ucall"; c] -> LUnsubCall (nat c)
  | ["rin"; c] -> LRemoveInbox (nat c)
  | ["rnot"; c] -> LRemoveNotInbox (nat c)
  | ["rlock"; c] -> LRemoveLock (nat c)
  | ["runlock"; c] -> LRemoveUnlock (nat c)
  | ["rhand"; c] -> LRemoveHandoff (nat c)
  | ["uret"; c] -> LUnsubRet (nat c)
  | ["rb"; c] -> LRecvBegin (nat c)
  | ["re"; c; v] -> LRecvEnd (nat c, nat v)
  | _ -> failwith ("bad label " ^ tok)

let mparse (tok : string) : mlabel =
  match String.split_on_char ':' tok with
  | ["new"; s] -> MSubNew (nat s)
  | ["sstop"; s] -> MSubStopped (nat s)
  | ["add"; s; t] -> MSubAdd (nat s, nat t)
  | ["pcall"; p; t] -> MPostCall (nat p, nat t)
  | ["pstop"; p] -> MPostStopped (nat p)
  | ["snap"; p] -> MPostSnap (nat p)
  | ["dsent"; p; s] -> MDeliverSent (nat p, nat s)
  | ["dclosed"; p; s] -> MDeliverClosed (nat p, nat s)
  | ["dstale"; p; s] -> MDeliverStale (nat p, nat s)
  | ["pret"; p] -> MPostRet (nat p)
  | ["del"; s; t] -> MDel (nat s, nat t)
  | ["closing"; s] -> MClosing (nat s)
  | ["pclose"; s] -> MPostcClose (nat s)
  | ["stopb"] -> MStopBegin
  | ["stope"] -> MStopEnd
  | _ -> failwith ("bad mlabel " ^ tok)

let uniq l = List.sort_uniq compare l

let handle (toks : string list) : string =
  match toks with
  | "run" :: ls ->
    let labels = List.map parse ls in
    (match run_from init labels O with
     | Inr n -> let i = int_of_nat n in "rejected " ^ string_of_int i ^ " " ^ List.nth ls i
     | Inl st ->
       let sids = uniq (List.concat_map (fun t -> match String.split_on_char ':' t with ["ret"; s; _] -> [int_of_string s] | _ -> []) ls) in
       let chans = uniq (List.concat_map (fun t -> match String.split_on_char ':' t with ["sub"; c; _] -> [int_of_string c] | _ -> []) ls) in
       let ns = String.concat "," (List.map (fun s -> string_of_int s ^ ":" ^ string_of_int (int_of_nat (count_snd (nat_of_int s) st.log))) sids) in
       let rv = String.concat ";" (List.map (fun c ->
           string_of_int c ^ ":" ^ String.concat "." (List.rev_map (fun v -> string_of_int (int_of_nat v)) (st.chs (nat_of_int c)).c_recvd)) chans) in
       Printf.sprintf "accepted d=%d nsent=%s recv=%s panicked=%b" (List.length st.log) ns rv st.panicked)
  | "drun" :: ls ->
    (* Feed without the one-subscription-per-channel restriction; a label may carry `@hint` (index chosen by Select) *)
    let split t = match String.split_on_char '@' t with [a; h] -> (a, int_of_string h) | _ -> (t, 0) in
    let labels = List.map (fun t -> let (a, h) = split t in (parse a, nat_of_int h)) ls in
    (match drun_from dinit labels O with
     | Inr n -> let i = int_of_nat n in "rejected " ^ string_of_int i ^ " " ^ List.nth ls i
     | Inl st ->
       let sids = uniq (List.concat_map (fun t -> match String.split_on_char ':' t with ["ret"; s; _] -> [int_of_string s] | _ -> []) ls) in
       let chans = uniq (List.concat_map (fun t -> match String.split_on_char ':' t with ["sub"; c; _] -> [int_of_string c] | _ -> []) ls) in
       let ns = String.concat "," (List.map (fun s -> string_of_int s ^ ":" ^ string_of_int (int_of_nat (count_snd (nat_of_int s) st.d_log))) sids) in
       let rv = String.concat ";" (List.map (fun c ->
           string_of_int c ^ ":" ^ String.concat "." (List.rev_map (fun v -> string_of_int (int_of_nat v)) (st.d_chs (nat_of_int c)).c_recvd)) chans) in
       Printf.sprintf "accepted d=%d nsent=%s recv=%s panicked=%b" (List.length st.d_log) ns rv st.d_panicked)
  | "krun" :: ls ->
    (* SubscriptionScope: accepted closed=<b> tracked=<n> unsub=<ids of added subscriptions whose Unsubscribe returned> *)
    let kparse tok = match String.split_on_char ':' tok with
      | ["tnil"; x] -> KTrackNil (nat x) | ["tadd"; x] -> KTrackAdd (nat x)
      | ["cskip"; k] -> KCloseSkip (nat k) | ["cbegin"; k] -> KCloseBegin (nat k)
      | ["cunsub"; k; x] -> KCloseUnsub (nat k, nat x) | ["cdone"; k] -> KCloseDone (nat k)
      | ["wunsub"; x] -> KWUnsub (nat x) | ["wdel"; x] -> KWDel (nat x)
      | _ -> failwith ("bad klabel " ^ tok) in
    (match krun_from kinit (List.map kparse ls) O with
     | Inr n -> let i = int_of_nat n in "rejected " ^ string_of_int i ^ " " ^ List.nth ls i
     | Inl st ->
       let added = List.sort compare (List.map int_of_nat st.k_added) in
       let un = List.filter (fun x -> st.k_unsubd (nat_of_int x)) added in
       Printf.sprintf "accepted closed=%b tracked=%d added=%s unsub=%s" st.k_closed (List.length st.k_tracked)
         (String.concat "." (List.map string_of_int added)) (String.concat "." (List.map string_of_int un)))
  | "prun" :: ls ->
    (* closewait / deliver protocol of one TypeMuxSubscription: b=RLock taken, s=sent, c=closing case, g=close(closing), x=close(postC) *)
    let pp = function "b" -> PBegin | "s" -> PSent | "c" -> PClosedCase | "g" -> PClosing | "x" -> PClose | t -> failwith ("bad plabel " ^ t) in
    (match prun_from pinit (List.map pp ls) O with
     | Inr n -> let i = int_of_nat n in "rejected " ^ string_of_int i ^ " " ^ List.nth ls i
     | Inl st -> Printf.sprintf "accepted closed=%b readers=%d bad=%b" st.p_closed (int_of_nat st.p_ro + int_of_nat st.p_rn) st.p_bad)
  | "mrun" :: ls ->
    (* TypeMux: accepted d=<deliveries> got=<s:p.p.p;...> (posts delivered to each subscription, sorted: concurrent Posts have no common order) panicked=<b> *)
    (match mrun_from minit (List.map mparse ls) O with
     | Inr n -> let i = int_of_nat n in "rejected " ^ string_of_int i ^ " " ^ List.nth ls i
     | Inl st ->
       let subs = uniq (List.concat_map (fun t -> match String.split_on_char ':' t with ["new"; s] -> [int_of_string s] | _ -> []) ls) in
       let lg = List.rev_map (fun (p, s) -> (int_of_nat p, int_of_nat s)) st.mlog in
       let got = String.concat ";" (List.map (fun s ->
           string_of_int s ^ ":" ^ String.concat "." (List.map string_of_int (List.sort compare (List.filter_map (fun (p, s') -> if s' = s then Some p else None) lg)))) subs) in
       let posts = uniq (List.concat_map (fun t -> match String.split_on_char ':' t with ["pcall"; p; _] -> [int_of_string p] | _ -> []) ls) in
       let perr = List.filter (fun p -> match st.ppcs (nat_of_int p) with PErr -> true | _ -> false) posts in
       Printf.sprintf "accepted d=%d got=%s perr=%s panicked=%b" (List.length st.mlog) got (String.concat "." (List.map string_of_int perr)) st.mpanic)
  | "enabled" :: l :: ls ->
    (* is label l enabled after the trace ls? *)
    (match run_from init (List.map parse ls) O with
     | Inr n -> "rejected " ^ string_of_int (int_of_nat n)
     | Inl st -> string_of_bool_ (enabled st (parse l)))
  | _ -> "driver-error unknown-command"

let () = self_test b2n; serve handle
