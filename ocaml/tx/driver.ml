(* modelrun for the tx area (C06, C05): one request per line, one answer per line.
   The EVM interpreter is an oracle table recorded by the harness from the real
   EVM: per transaction index, what `run` did (status, gas left, refund counter,
   logs, suicided accounts, per-account state delta).  A query outside the table
   is answered `driver-error oracle-missing` (reported as a divergence). *)
open Model
open Vh

let opt_n (s : string) : n option = if s = "-" then None else Some (n_of_string s)

let parse_cfg (s : string) : chain_cfg =
  if String.length s > 1 && s.[0] = 'b' then
    (match builtin_cfg (n_of_string (String.sub s 1 (String.length s - 1))) with
     | Some c -> c | None -> failwith "unknown-builtin-cfg")
  else if String.length s > 2 && s.[0] = 'c' && s.[1] = ':' then
    (match split_on ',' (String.sub s 2 (String.length s - 2)) with
     | [h; e; b; f4; f5] -> { c_homestead = opt_n h; c_eip158 = opt_n e; c_byzantium = opt_n b; c_hf4 = opt_n f4; c_hf5 = opt_n f5 }
     | _ -> failwith "bad-cfg")
  else failwith "bad-cfg"

let parse_state (s : string) : state =
  if s = "-" then [] else
  List.map (fun e -> match split_on ':' e with
    | [a; b; n; c; st] -> (n_of_string a, { bal = z_of_string b; nonce = n_of_string n; code = n_of_string c; stor = n_of_string st })
    | _ -> failwith "bad-state") (split_on ',' s)

let bool_of s = (s = "1")

let parse_msg (s : string) : message =
  match split_on ':' s with
  | [f; t; n; p; g; v; d; c] ->
    { m_from = n_of_string f; m_to = opt_n t; m_nonce = n_of_string n; m_price = n_of_string p; m_gas = n_of_string g;
      m_value = n_of_string v; m_data = bytes_of_hex d; m_check_nonce = bool_of c }
  | _ -> failwith "bad-msg"

type orec = { o_status : run_status; o_gas : n; o_refund : n; o_logs : n; o_suicided : n list;
              o_delta : (n * z * z * n * n) list; o_created : n list; o_dirtied : n list }

let parse_oracle (s : string) : orec option =
  if s = "-" then None else
  let alist x = if x = "-" then [] else List.map n_of_string (split_on '+' x) in
  let mk st g r l su d cr di =
    let status = (match st with "ok" -> RunOk | "revert" -> RunRevert | "fail" -> RunFail | "csoog" -> RunCodeStoreOOG | _ -> failwith "bad-status") in
    let delta = if d = "-" then [] else List.map (fun e -> match split_on '/' e with
      | [a; db; dn; c; st] -> (n_of_string a, z_of_string db, z_of_string dn, n_of_string c, n_of_string st)
      | _ -> failwith "bad-delta") (split_on '+' d) in
    Some { o_status = status; o_gas = n_of_string g; o_refund = n_of_string r; o_logs = n_of_string l; o_suicided = alist su;
           o_delta = delta; o_created = alist cr; o_dirtied = alist di } in
  match split_on ':' s with
  | [st; g; r; l; su; d] -> mk st g r l su d "-" "-"
  | [st; g; r; l; su; d; cr; di] -> mk st g r l su d cr di
  | _ -> failwith "bad-oracle"

let z_of_n (x : n) : z = match x with N0 -> Z0 | Npos p -> Zpos p
let n_of_z (x : z) : n = match x with Zpos p -> Npos p | _ -> N0

let apply_delta (s : state) (d : (n * z * z * n * n) list) : state =
  List.fold_left (fun s (a, db, dn, c, st) ->
    upd a (fun acc -> { bal = Z.add acc.bal db; nonce = n_of_z (Z.add (z_of_n acc.nonce) dn); code = c; stor = st }) s) s d

let make_runner (table : orec option array) : runner =
  fun ri s ->
    let i = int_of_n ri.ri_index in
    if i >= Array.length table then failwith "oracle-missing" else
    match table.(i) with
    | None -> failwith "oracle-missing"
    | Some o -> { ro_status = o.o_status; ro_gas_left = o.o_gas; ro_refund = o.o_refund; ro_state = apply_delta s o.o_delta;
                  ro_logs = o.o_logs; ro_suicided = o.o_suicided }

let make_erunner (table : orec option array) : erunner =
  fun i ->
    let i = int_of_n i in
    if i >= Array.length table then { eo_created = []; eo_dirtied = [] } else
    match table.(i) with
    | None -> { eo_created = []; eo_dirtied = [] }
    | Some o -> { eo_created = o.o_created; eo_dirtied = o.o_dirtied }

(* canonical dumps.  Exact: every existing account (also empty ones), sorted by address, plus a
   `ghosts=` suffix if the value state holds content outside the existence set.  Loose: the
   non-empty accounts only (used where the request carries no existence information). *)
let is_empty (a : account) = (a.bal = Z0 && a.nonce = N0 && a.code = N0 && a.stor = N0)
let cmp_hex a b = let la = String.length a and lb = String.length b in if la <> lb then compare la lb else compare a b
let render_entries (l : (string * account) list) : string =
  let l = List.sort (fun (a, _) (b, _) -> cmp_hex a b) l in
  if l = [] then "-" else
  String.concat "," (List.map (fun (k, acc) -> k ^ ":" ^ hex_of_z acc.bal ^ ":" ^ hex_of_n acc.nonce ^ ":" ^ hex_of_n acc.code ^ ":" ^ hex_of_n acc.stor) l)
let dedup (s : state) : (string * account) list =
  let seen = Hashtbl.create 16 in
  List.filter_map (fun (a, acc) ->
    let k = hex_of_n a in
    if Hashtbl.mem seen k then None else (Hashtbl.add seen k (); Some (k, acc))) s
let dump_state (s : state) : string = render_entries (List.filter (fun (_, acc) -> not (is_empty acc)) (dedup s))
let dump_exact (s : state) (es : estate) : string =
  let base = render_entries (dedup (materialise s es)) in
  match ghosts s es with
  | [] -> base
  | g -> base ^ " ghosts=" ^ String.concat "+" (List.map hex_of_n g)
let estate_of (s : state) : estate = { es_exist = List.map fst s; es_dirty = [] }

let err_name = function
  | ErrNonceTooHigh -> "nonce-too-high" | ErrNonceTooLow -> "nonce-too-low"
  | ErrInsufficientBalanceForGas -> "insufficient-balance-for-gas" | ErrGasLimitReached -> "gas-limit-reached"
  | ErrIntrinsicOverflow -> "intrinsic-overflow" | ErrIntrinsicGas -> "intrinsic-gas" | ErrInsufficientBalance -> "insufficient-balance"

let b01 b = if b then "1" else "0"
let opt_hex = function None -> "-" | Some a -> hex_of_n a

let render_receipt (r : receipt) : string =
  (match r.r_post with PostRoot -> "root" | PostStatus true -> "status1" | PostStatus false -> "status0")
  ^ "/" ^ b01 r.r_status_ok ^ "/" ^ hex_of_n r.r_cumulative ^ "/" ^ hex_of_n r.r_gas_used ^ "/" ^ opt_hex r.r_contract ^ "/" ^ hex_of_n r.r_logs

let parse_uncles (s : string) : uncle list =
  if s = "-" then [] else List.map (fun e -> match split_on ':' e with
    | [n; c] -> { u_number = n_of_string n; u_coinbase = n_of_string c } | _ -> failwith "bad-uncle") (split_on ';' s)

let parse_addrs (s : string) : n list = if s = "-" then [] else List.map n_of_string (split_on '+' s)

let handle (toks : string list) : string =
  match toks with
  | ["keccak"; h] -> hex_of_bytes (keccak256 (bytes_of_hex h))
  | ["intrinsic"; d; c; h] ->
    (match intrinsic_gas (bytes_of_hex d) (bool_of c) (bool_of h) with
     | IGas g -> "ok " ^ hex_of_n g | IErr -> "err" | IPanic -> "panic")
  | ["createaddr"; a; n] -> hex_of_n (create_address (n_of_string a) (n_of_string n))
  | ["refund"; i; g; c] -> hex_of_n (refund_amount (n_of_string i) (n_of_string g) (n_of_string c))
  | ["tx"; cfg; num; coinbase; pool; cum; st; msg; orc] ->
    let table = [| parse_oracle orc |] in
    let run = make_runner table in
    let s0 = parse_state st in
    let es = apply_transaction_e (parse_cfg cfg) (n_of_string num) (n_of_string coinbase) run (make_erunner table) N0 s0
               (n_of_string pool) (n_of_string cum) (parse_msg msg) (estate_of s0) in
    (match apply_transaction (parse_cfg cfg) (n_of_string num) (n_of_string coinbase) run N0 s0
             (n_of_string pool) (n_of_string cum) (parse_msg msg) with
     | TxErr e -> "err " ^ err_name e
     | TxPanic -> "panic"
     | TxOk r ->
       let t = r.x_tdb in
       "ok receipt=" ^ render_receipt r.x_receipt ^ " pool=" ^ hex_of_n r.x_pool ^ " failed=" ^ b01 t.t_failed
       ^ " intrinsic=" ^ hex_of_n t.t_intrinsic ^ " gasleft=" ^ hex_of_n t.t_gas_left ^ " refund=" ^ hex_of_n t.t_refund
       ^ " state=" ^ dump_exact r.x_state es)
  | ["txi"; num; coinbase; pool; cum; st; msg; gaslimit; time; difficulty; fuel] ->
    (* the same transaction with the EVM of Evm/Interp.v inside instead of an oracle table (mainnet configuration);
       code / storage fields of the state are content encodings (dg_c / sg_c) *)
    let s0 = parse_state st in
    (match apply_transaction_i (nat_of_int (int_of_string fuel)) (parse_cfg "b0") (n_of_string num) (n_of_string coinbase)
             (z_of_string gaslimit) (z_of_string time) (z_of_string difficulty) s0 (n_of_string pool) (n_of_string cum) (parse_msg msg) with
     | TxErr e -> "err " ^ err_name e
     | TxPanic -> "panic"
     | TxOk r ->
       let t = r.x_tdb in
       "ok receipt=" ^ render_receipt r.x_receipt ^ " pool=" ^ hex_of_n r.x_pool ^ " failed=" ^ b01 t.t_failed
       ^ " intrinsic=" ^ hex_of_n t.t_intrinsic ^ " gasleft=" ^ hex_of_n t.t_gas_left ^ " refund=" ^ hex_of_n t.t_refund
       ^ " state=" ^ dump_state r.x_state)
  | ["block"; cfg; dealloc; num; coinbase; gaslimit; gasused; st; txs; uncles; orcs] ->
    let txl = if txs = "-" then [] else List.map parse_msg (split_on ';' txs) in
    let table = Array.of_list (if orcs = "-" then [] else List.map parse_oracle (split_on ';' orcs)) in
    let h = { h_number = n_of_string num; h_coinbase = n_of_string coinbase; h_gas_limit = n_of_string gaslimit; h_gas_used = n_of_string gasused } in
    let s0 = parse_state st in
    let es = process_e (parse_cfg cfg) (parse_addrs dealloc) (make_runner table) (make_erunner table) s0 h txl (parse_uncles uncles) (estate_of s0) in
    (match process (parse_cfg cfg) (parse_addrs dealloc) (make_runner table) s0 h txl (parse_uncles uncles) with
     | BlockErr (i, e) -> "err " ^ string_of_int (int_of_n i) ^ " " ^ err_name e
     | BlockPanic -> "panic"
     | BlockOk (s, rs, used) ->
       "ok used=" ^ hex_of_n used ^ " valid=" ^ b01 (validate_gas_used h used)
       ^ " receipts=" ^ (if rs = [] then "-" else String.concat ";" (List.map render_receipt rs))
       ^ " supply=" ^ hex_of_z (supply s) ^ " state=" ^ dump_exact s es)
  | ["rewards"; num; coinbase; uncles; st] ->
    let h = { h_number = n_of_string num; h_coinbase = n_of_string coinbase; h_gas_limit = N0; h_gas_used = N0 } in
    let us = parse_uncles uncles in
    let s0 = parse_state st in
    let s = accumulate_rewards h us s0 in
    "supply_before=" ^ hex_of_z (supply s0) ^ " supply_after=" ^ hex_of_z (supply s) ^ " issuance=" ^ hex_of_z (issuance h.h_number us)
    ^ " state=" ^ dump_state s
  | ["rewards_e"; cfg; num; coinbase; uncles; st] ->
    (* engine.Finalize: accumulateRewards then IntermediateRoot(IsEIP158) *)
    let c = parse_cfg cfg in
    let h = { h_number = n_of_string num; h_coinbase = n_of_string coinbase; h_gas_limit = N0; h_gas_used = N0 } in
    let us = parse_uncles uncles in
    let s0 = parse_state st in
    let s = accumulate_rewards h us s0 in
    let es = finalise_e (is_forked c.c_eip158 h.h_number) [] s (accumulate_rewards_e h us s0 (estate_of s0)) in
    "supply_before=" ^ hex_of_z (supply s0) ^ " supply_after=" ^ hex_of_z (supply s) ^ " issuance=" ^ hex_of_z (issuance h.h_number us)
    ^ " state=" ^ dump_exact s es
  | ["hf4"; dealloc; st] ->
    let s0 = parse_state st in
    let s = apply_hf4 (parse_addrs dealloc) s0 in
    "supply_before=" ^ hex_of_z (supply s0) ^ " supply_after=" ^ hex_of_z (supply s) ^ " state=" ^ dump_state s
  | _ -> "driver-error unknown-command"

let () = self_test b2n; serve handle
