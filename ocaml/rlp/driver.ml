(* modelrun for the RLP area: one request per line, one answer per line. *)
open Model
open Vh

let rec render (x : item) : string =
  match x with
  | Str s -> hex_of_bytes s
  | Lst l -> "[" ^ String.concat "," (List.map render l) ^ "]"

(* parse the rendering back: item := 0x.. | [ item , ... ] *)
let parse (s : string) : item =
  let n = String.length s in
  let pos = ref 0 in
  let rec item () =
    if !pos < n && s.[!pos] = '[' then begin
      incr pos;
      let l = ref [] in
      if !pos < n && s.[!pos] = ']' then incr pos
      else begin
        let continue = ref true in
        while !continue do
          l := item () :: !l;
          if !pos < n && s.[!pos] = ',' then incr pos
          else if !pos < n && s.[!pos] = ']' then (incr pos; continue := false)
          else failwith "parse item"
        done
      end;
      Lst (List.rev !l)
    end else begin
      let st = !pos in
      while !pos < n && s.[!pos] <> ',' && s.[!pos] <> ']' do incr pos done;
      Str (bytes_of_hex (String.sub s st (!pos - st)))
    end in
  let x = item () in
  if !pos <> n then failwith "trailing"; x


(* ---- Typed.v descriptors written as Gallina terms (harness/rlptypes.Describe), for
   types outside the generated registry: typed_ty <hex of descriptor> <hex input> ---- *)
let ty_tokens (s : string) : string list =
  let toks = ref [] and cur = Buffer.create 16 in
  let flush () = if Buffer.length cur > 0 then (toks := Buffer.contents cur :: !toks; Buffer.clear cur) in
  String.iter (fun ch -> match ch with
    | '(' | ')' | '[' | ']' | ';' -> flush (); toks := String.make 1 ch :: !toks
    | ' ' | '\t' | '\n' -> flush ()
    | _ -> Buffer.add_char cur ch) s;
  flush (); List.rev !toks

let parse_ty (s : string) : ty =
  let toks = ref (ty_tokens s) in
  let next () = match !toks with t :: r -> toks := r; t | [] -> failwith "ty: eof" in
  let peek () = match !toks with t :: _ -> t | [] -> "" in
  let expect t = if next () <> t then failwith ("ty: expected " ^ t) in
  let rec ty () =
    match next () with
    | "(" -> let t = ty () in expect ")"; t
    | "TUint" -> TUint (n_of_string (next ()))
    | "TBig" -> TBig | "TBool" -> TBool | "TBytes" -> TBytes | "TIface" -> TIface | "TStatus" -> TStatus
    | "TByteArr" -> TByteArr (n_of_string (next ()))
    | "TSlice" -> TSlice (ty ())
    | "TArr" -> let n = n_of_string (next ()) in TArr (n, ty ())
    | "TPtr" -> TPtr (ty ())
    | "TNilPtr" -> TNilPtr (ty ())
    | "TStruct" ->
      expect "[";
      let fs = ref [] in
      if peek () = "]" then ignore (next ())
      else begin
        let continue = ref true in
        while !continue do
          fs := ty () :: !fs;
          match next () with ";" -> () | "]" -> continue := false | _ -> failwith "ty: field list"
        done
      end;
      let tail = match next () with
        | "None" -> None
        | "(" -> expect "Some"; let t = ty () in expect ")"; Some t
        | _ -> failwith "ty: tail" in
      TStruct (List.rev !fs, tail)
    | t -> failwith ("ty: unknown " ^ t) in
  let t = ty () in
  if !toks <> [] then failwith "ty: trailing"; t

let ty_cache : (string, ty) Hashtbl.t = Hashtbl.create 16
let ty_of_hex (h : string) : ty =
  match Hashtbl.find_opt ty_cache h with
  | Some t -> t
  | None ->
    let str = String.concat "" (List.map (fun b -> String.make 1 (Char.chr (int_of_byte b))) (bytes_of_hex h)) in
    let t = parse_ty str in Hashtbl.add ty_cache h t; t

(* ---- rlp.Stream, code-shaped model (coq/Rlp/StreamModel.v) ---- *)
let serr_name (e : serr) : string =
  match e with
  | EEOL -> "eol" | EExpectedString -> "expstr" | EExpectedList -> "explist"
  | ECanonInt -> "canonint" | ECanonSize -> "canonsize" | EElemTooLarge -> "elemlarge"
  | EValueTooLarge -> "vallarge" | ENotInList -> "notinlist" | ENotAtEOL -> "notateol"
  | EUintOverflow -> "uintoverflow" | EEOF -> "eof" | EUnexpectedEOF -> "uneof"
  | EInvalidBool -> "other"

let sval_render (v : sval) : string =
  match v with
  | RvKind (k, n) -> "k" ^ (match k with SByte -> "0" | SString -> "1" | SList -> "2") ^ ":" ^ hex_of_n n
  | RvNum n -> "n" ^ hex_of_n n
  | RvBytes b -> "x" ^ hex_of_bytes b
  | RvBool b -> if b then "t" else "f"
  | RvUnit -> "u"

let sop_parse (t : string) : sop =
  match t with
  | "K" -> OpKind | "L" -> OpList | "E" -> OpListEnd | "B" -> OpBytes | "R" -> OpRaw | "O" -> OpBool
  | _ when String.length t >= 2 && t.[0] = 'U' ->
    OpUint (n_of_string (String.sub t 1 (String.length t - 1)))
  | _ -> failwith "op"

(* one answer per op: <result>/<bytes left in the reader>, joined by ';'; stops after a panic *)
let stream_ops (s0 : stream) (ops : string list) : string =
  let rec go s ops acc =
    match ops with
    | [] -> List.rev acc
    | o :: rest ->
      let (r, s') = st_op (sop_parse o) s in
      let left = string_of_int (List.length s'.s_in) in
      (match r with
       | SOk v -> go s' rest (("ok:" ^ sval_render v ^ "/" ^ left) :: acc)
       | SErr e -> go s' rest (("err:" ^ serr_name e ^ "/" ^ left) :: acc)
       | SPanic -> List.rev ("panic" :: acc)) in
  String.concat ";" (go s0 ops [])

let handle (toks : string list) : string =
  match toks with
  | ["keccak"; h] -> hex_of_bytes (keccak256 (bytes_of_hex h))
  | ["decode"; h] ->
    (match decode (bytes_of_hex h) with
     | Some (x, r) -> "ok " ^ render x ^ " " ^ hex_of_bytes r
     | None -> "err")
  | ["decode_exact"; h] ->
    (match decode_exact (bytes_of_hex h) with Some x -> "ok " ^ render x | None -> "err")
  | ["split"; h] ->
    (match split (bytes_of_hex h) with
     | Some ((k, c), r) -> "ok " ^ (match k with KStr -> "S" | KLst -> "L") ^ " " ^ hex_of_bytes c ^ " " ^ hex_of_bytes r
     | None -> "err")
  | ["count"; h] ->
    (match count_values (bytes_of_hex h) with Some n -> "ok " ^ string_of_int (int_of_n n) | None -> "err")
  | ["encode"; r] -> hex_of_bytes (encode (parse r))
  | ["uint"; bits; h] ->
    (match decode_exact (bytes_of_hex h) with
     | Some x -> (match item_to_uint (n_of_string bits) x with Some n -> "ok " ^ hex_of_n n | None -> "err")
     | None -> "err")
  | ["encode_uint"; n] -> hex_of_bytes (encode_uint (n_of_string n))
  | ["typed"; name; h] ->
    (* name is the hex of the ASCII type name *)
    (match typed_recode (bytes_of_hex name) (bytes_of_hex h) with
     | None -> "driver-error unknown-type"
     | Some None -> "err"
     | Some (Some b) -> "ok " ^ hex_of_bytes b)
  (* typed_ty <hex of the ASCII Typed.v descriptor> <hex>: typed_recode at an explicit descriptor *)
  | ["typed_ty"; d; h] ->
    (match (try Some (ty_of_hex d) with Failure _ -> None) with
     | None -> "driver-error bad-descriptor"
     | Some t ->
       (match dec_typed t (bytes_of_hex h) with
        | None -> "err"
        | Some v -> (match enc_typed t v with Some b -> "ok " ^ hex_of_bytes b | None -> "err")))
  (* stream_walk <inputLimit> <reader is *bytes.Reader: 0|1> <hex> *)
  | ["stream_walk"; lim; br; h] ->
    (match stream_walk (bytes_of_hex h) (n_of_string lim) (br = "1") with
     | None -> "nofuel"
     | Some (SOk x, left) -> "ok " ^ render x ^ " left=" ^ string_of_int (List.length left)
     | Some (SErr e, left) -> "err " ^ serr_name e ^ " left=" ^ string_of_int (List.length left)
     | Some (SPanic, _) -> "panic")
  (* stream_ops <inputLimit> <0|1> <hex> <op,op,...>  ops: K L E B R U<bits> O *)
  | ["stream_ops"; lim; br; h; ops] ->
    stream_ops (new_stream (bytes_of_hex h) (n_of_string lim) (br = "1")) (split_on ',' ops)
  | ["stream_ops"; lim; br; h] -> ""
  | _ -> "driver-error unknown-command"

let () = self_test b2n; serve handle
