(* modelrun for the RLP area: one request per line, one answer per line. *)
open Model
open Vh

let rec render (x : item) : string =
  match x with
  | Str s -> hex_of_bytes s
  | Lst l -> "[" ^ String.concat "," (List.map render l) ^ "]"

(* parse the rendering back: item := 0x.. | [ item , ... ] *)
let parse (s : string) : item =
  let n = String.length s in
  let pos = ref 0 in
  let rec item () =
    if !pos < n && s.[!pos] = '[' then begin
      incr pos;
      let l = ref [] in
      if !pos < n && s.[!pos] = ']' then incr pos
      else begin
        let continue = ref true in
        while !continue do
          l := item () :: !l;
          if !pos < n && s.[!pos] = ',' then incr pos
          else if !pos < n && s.[!pos] = ']' then (incr pos; continue := false)
          else failwith "parse item"
        done
      end;
      Lst (List.rev !l)
    end else begin
      let st = !pos in
      while !pos < n && s.[!pos] <> ',' && s.[!pos] <> ']' do incr pos done;
      Str (bytes_of_hex (String.sub s st (!pos - st)))
    end in
  let x = item () in
  if !pos <> n then failwith "trailing"; x

let handle (toks : string list) : string =
  match toks with
  | ["keccak"; h] -> hex_of_bytes (keccak256 (bytes_of_hex h))
  | ["decode"; h] ->
    (match decode (bytes_of_hex h) with
     | Some (x, r) -> "ok " ^ render x ^ " " ^ hex_of_bytes r
     | None -> "err")
  | ["decode_exact"; h] ->
    (match decode_exact (bytes_of_hex h) with Some x -> "ok " ^ render x | None -> "err")
  | ["split"; h] ->
    (match split (bytes_of_hex h) with
     | Some ((k, c), r) -> "ok " ^ (match k with KStr -> "S" | KLst -> "L") ^ " " ^ hex_of_bytes c ^ " " ^ hex_of_bytes r
     | None -> "err")
  | ["count"; h] ->
    (match count_values (bytes_of_hex h) with Some n -> "ok " ^ string_of_int (int_of_n n) | None -> "err")
  | ["encode"; r] -> hex_of_bytes (encode (parse r))
  | ["uint"; bits; h] ->
    (match decode_exact (bytes_of_hex h) with
     | Some x -> (match item_to_uint (n_of_string bits) x with Some n -> "ok " ^ hex_of_n n | None -> "err")
     | None -> "err")
  | ["encode_uint"; n] -> hex_of_bytes (encode_uint (n_of_string n))
  | ["typed"; name; h] ->
    (* name is the hex of the ASCII type name *)
    (match typed_recode (bytes_of_hex name) (bytes_of_hex h) with
     | None -> "driver-error unknown-type"
     | Some None -> "err"
     | Some (Some b) -> "ok " ^ hex_of_bytes b)
  | _ -> "driver-error unknown-command"

let () = self_test b2n; serve handle
