#!/bin/bash
# tools/seed_rerun.sh <seed-id> <checks...> : re-run a kept seed against the current checks and append a rerun note
id=$1; shift
out=$(/verif/tools/run_seeded.sh /verif/seeded/$id/patch.diff "$@" 2>&1 | grep "^VIOLATION\|^OK\|^FAIL" | sed 's/ tier=quick//; s/ evaluations=[0-9]*//; s/ wall=[0-9]*s//')
nv=$(echo "$out" | grep -c "^VIOLATION.*json$"); v=$(echo "$out" | grep "^OK\|^FAIL" | paste -sd';')
/verif/tools/seed_rerun_note.py $id "after strengthening: run_seeded $*: $v (concrete replays: $nv)"
echo "$id :: $v :: concrete=$nv"
