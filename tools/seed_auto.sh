#!/bin/bash
# tools/seed_auto.sh <seedroot> <P> <k> <id> <checks...> : confirm + run + keep, fully automatic
ROOT=$1; P=$2; K=$3; ID=$4; shift 4
OUT=$ROOT/$P.out
DEMO=$OUT/demo${K}_test.go
PKG=$(head -5 $DEMO | grep -o -i "copy[^a-z]*\(it \)\?\(in\)\?to [^ ]*" | head -1 | sed 's/.*to //; s#<worktree>/##; s#^/tmp/seed[0-9]*/[A-Z0-9]*/##; s#/*$##; s#[`,.(]##g')
P2=$(head -8 $DEMO | grep -o "go test.*" | grep -o "\./[A-Za-z0-9_/]*" | tail -1 | sed 's#^\./##; s#/*$##')
if [ -n "$P2" ] && [ -d "/repo/$P2" ]; then PKG=$P2; fi
RX=$(grep -o "^func Test[A-Za-z0-9_]*" $DEMO | sed 's/func //' | paste -sd'|')
R=/tmp/seedres/$ID.txt
{
echo "##### $ID pkg=$PKG rx=$RX"
/verif/tools/confirm_seed.sh $OUT $K "$PKG" "$RX" 2>&1 | grep -v "^\s*$" | grep -A2 "^---" | grep -v "^--$" | cut -c1-200
echo "##### checks: $@"
/verif/tools/run_seeded.sh $OUT/mut$K.diff "$@" 2>&1 | grep "^VIOLATION\|^OK\|^FAIL\|^ERROR\|proof build failed\|go build failed" | cut -c1-300 | awk '{c[$1" "$2]++; if (c[$1" "$2] <= 2) print}'
} > $R 2>&1
CONF=$(grep -A1 "clean tree" $R | tail -1 | grep -c "^ok"); FAILP=$(grep -A3 "with patch" $R | grep -c "FAIL"); EXIST=$(grep -A4 "existing tests" $R | grep -c "^FAIL")
VERD=$(grep "^OK\|^FAIL" $R | sed 's/ tier=quick//; s/ evaluations=[0-9]*//; s/ wall=[0-9]*s//' | paste -sd';')
NV=$(grep -c "^VIOLATION.*json$" $R); NN=$(grep -c "no-failing-input-found" $R)
/verif/tools/keep_seed.sh $OUT $K $ID $P "confirm_seed: demo on clean tree ok=$CONF, demo fails with patch=$FAILP, existing package tests failing=$EXIST. run_seeded $*: $VERD (concrete replays shown: $NV, no-failing-input-found: $NN)" >/dev/null
echo "$ID :: clean_ok=$CONF patched_fail=$FAILP existing_fail=$EXIST :: $VERD :: concrete=$NV nfi=$NN"
