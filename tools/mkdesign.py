#!/usr/bin/env python3
"""Regenerates the generated tables of DESIGN.md (between the AUTOGEN markers) from
coq/Properties/*.v, known_findings.json and seeded/*/meta.json."""
import json, os, re, glob
ROOT = os.path.dirname(os.path.dirname(os.path.abspath(__file__)))
out = []
# per-property as-built notes written by the package owners
notes = sorted(glob.glob(os.path.join(ROOT, "design", "C*.md")))
if notes:
    out.append("### Per-property as-built notes (from /verif/design/Cxx.md)\n")
    for f in notes:
        out.append(open(f).read().rstrip() + "\n")
out.append("### Theorems per property (from coq/Properties/Cxx.v; `_partial` / `_refuted` by name)\n")
out.append("| Prop. | obligations | full | partial | refuted | examples |")
out.append("|---|---|---|---|---|---|")
for f in sorted(glob.glob(os.path.join(ROOT, "coq/Properties/C*.v"))):
    pid = os.path.basename(f)[:-2]
    names = re.findall(r"^\s*(Theorem|Lemma|Corollary|Example|Proposition)\s+([\w']+)", open(f).read(), re.M)
    ex = [n for k, n in names if k == "Example" or "example" in n.lower()]
    th = [n for k, n in names if n not in ex]
    part = [n for n in th if "partial" in n]
    ref = [n for n in th if "refuted" in n]
    full = [n for n in th if n not in part and n not in ref]
    out.append("| %s | %d | %d | %d | %d | %d |" % (pid, len(names), len(full), len(part), len(ref), len(ex)))
out.append("")
kf = json.load(open(os.path.join(ROOT, "known_findings.json")))
out.append("### Genuine defects found on the unchanged tree\n")
out.append("Repaired by `fix:` commits in /repo (the corresponding models follow the repaired code; reverting a fix makes the check report it again):\n")
out.append("| Prop. | signature | what failed |")
out.append("|---|---|---|")
for e in kf["fixed"]:
    out.append("| %s | `%s` | %s |" % (e["property"], e["signature"], e["what"].replace("|", "/")))
out.append("")
out.append("Recorded as known findings (`known_findings.json`; consensus-affecting, inherited from upstream, inherent to a file format, or not small): the model is kept faithful to the code, the theorem is `_refuted` with a `vm_compute` witness, the direct oracle reports the defect under a mechanism-specific signature triggered by a directed case on every run:\n")
out.append("| Prop. | signature | what fails |")
out.append("|---|---|---|")
for e in sorted(kf["known"], key=lambda e: e["property"]):
    out.append("| %s | `%s` | %s |" % (e["property"], e["signature"], e["what"].replace("|", "/")))
out.append("")
out.append("### Which checks catch which seeded changes (`/verif/seeded/<id>/`)\n")
out.append("Each change was written by a fresh agent that saw only the property text and a scratch worktree; confirmed by the integrator (`tools/confirm_seed.sh`: demo passes on the clean tree, fails with the patch, existing package tests pass) and run in isolation (`tools/run_seeded.sh`).\n")
out.append("The last column is the final regression: every kept change re-run against the final version of the check of the property it was written for (`tools/seed_regress.sh`).\n")
out.append("| id | what it breaks / needs | first run | after strengthening | final regression (owner check) |")
out.append("|---|---|---|---|---|")
def short(s, n=260):
    s = " ".join(str(s).split())
    return s if len(s) <= n else s[:n] + "…"
for d in sorted(glob.glob(os.path.join(ROOT, "seeded", "*"))):
    mf = os.path.join(d, "meta.json")
    if not os.path.exists(mf): continue
    m = json.load(open(mf))
    first = m.get("confirmed_by_integrator", "")
    i = first.find("run_seeded")
    first = first[i:] if i >= 0 else first
    rer = "; ".join(m.get("reruns", [])) or "—"
    rg = m.get("regression")
    rgs = "—" if not rg else ("%s: %s (concrete replays %d%s)" % ("detected" if rg.get("detected") else "NOT detected", short(rg.get("verdict", ""), 120), rg.get("concrete_replays", 0), ", no-failing-input-found" if rg.get("no_failing_input_found") and not rg.get("concrete_replays") else ""))
    out.append("| %s | %s — needs: %s | %s | %s | %s |" % (os.path.basename(d), short(m.get("breaks", ""), 200).replace("|", "/"), short(m.get("needs", ""), 200).replace("|", "/"), short(first, 300).replace("|", "/"), short(rer, 300).replace("|", "/"), rgs.replace("|", "/")))
txt = "\n".join(out) + "\n"
p = os.path.join(ROOT, "DESIGN.md")
s = open(p).read()
b, e = "<!-- AUTOGEN BEGIN -->", "<!-- AUTOGEN END -->"
if b in s:
    s = s[:s.index(b) + len(b)] + "\n" + txt + s[s.index(e):]
else:
    s += "\n" + b + "\n" + txt + e + "\n"
open(p, "w").write(s)
print("DESIGN.md tables regenerated")
