#!/bin/bash
# tools/keep_seed.sh <outdir> <k> <id> <property> "<what I ran / result>"
OUT=$1; K=$2; ID=$3; P=$4; RAN=$5
D=/verif/seeded/$ID; mkdir -p $D
cp $OUT/mut$K.diff $D/patch.diff
cp $OUT/demo${K}_test.go $D/ 2>/dev/null
python3 - "$OUT/meta$K.json" "$D/meta.json" "$P" "$RAN" <<'PY'
import json,sys
src,dst,p,ran=sys.argv[1:5]
try: m=json.load(open(src))
except Exception: m={}
out={"property":p,"breaks":m.get("summary",""),"needs":m.get("needs",""),"why_existing_tests_pass":m.get("why_tests_pass",""),"files":m.get("files",[]),
     "author_ran":m.get("ran",[]),"confirmed_by_integrator":ran}
json.dump(out,open(dst,"w"),indent=1)
PY
echo kept $D
