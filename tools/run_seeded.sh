#!/bin/bash
# tools/run_seeded.sh <patch.diff> <Cxx> [Cyy ...]
# Runs the registered quick checks against a scratch worktree of /repo with the
# patch applied, using a scratch copy of /verif (so neither /repo nor the live
# /verif build is disturbed).  Prints the check verdict lines; cleans up.
set -u
PATCH=$(readlink -f "$1"); shift
ID=$$
SW=/tmp/sw_$ID; SV=/tmp/sv_$ID
git -C /repo worktree add -q --detach "$SW" HEAD || exit 2
cleanup() { git -C /repo worktree remove --force "$SW" 2>/dev/null; rm -rf "$SV"; }
trap cleanup EXIT
# carry over not-yet-committed verification hook files (add-only zz_verif_*.go)
(cd /repo && git ls-files -mo --exclude-standard | grep "zz_verif_" | rsync -a --files-from=- /repo/ "$SW"/)
if ! git -C "$SW" apply "$PATCH"; then echo "PATCH DOES NOT APPLY"; exit 2; fi
mkdir -p "$SV"
rsync -a --exclude .git --exclude run --exclude replays --exclude seeded "${VERIF_SRC:-/verif}"/ "$SV"/
sed -i "s#=> /repo#=> $SW#" "$SV/harness/go.mod"
rc=0
for P in "$@"; do
  (cd "$SV" && VERIF_REPO="$SW" ${VERIF_TIER:+VERIF_TIER=$VERIF_TIER} timeout 1800 ./check "$P" 2>"$SV/err_$P.txt" | tail -8) || true
  grep -h -A8 "go build failed\|HARNESS ERROR\|proof build failed" "$SV/err_$P.txt" | head -14
  if [ -n "${KEEP_REPLAYS:-}" ]; then mkdir -p "$KEEP_REPLAYS"; cp -r "$SV/replays/." "$KEEP_REPLAYS"/ 2>/dev/null; cp "$SV/evidence/$P.json" "$KEEP_REPLAYS/evidence_$P.json" 2>/dev/null; fi
done
