#!/bin/bash
# tools/run_all.sh [ids...] — runs the quick checks sequentially and prints one summary line each
cd /verif
IDS=${@:-$(ls props | sed 's/.json//')}
for p in $IDS; do
  s=$(date +%s)
  out=$(./check $p 2>/tmp/runall_$p.err)
  rc=$?
  nv=$(echo "$out" | grep -c "^VIOLATION")
  nk=$(echo "$out" | grep -c "^KNOWN-FINDING")
  echo "$p rc=$rc violations=$nv known=$nk $(( $(date +%s) - s ))s :: $(echo "$out" | tail -1)"
  echo "$out" | grep "^VIOLATION" | head -3
done
