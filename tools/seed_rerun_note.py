#!/usr/bin/env python3
import json,sys
d="/verif/seeded/%s/meta.json"%sys.argv[1]
m=json.load(open(d)); m.setdefault("reruns",[]).append(sys.argv[2]); json.dump(m,open(d,"w"),indent=1)
