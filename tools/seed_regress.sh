#!/bin/bash
# tools/seed_regress.sh <seed-id> : re-run a kept seed against the CURRENT owner check and record the verdict as "regression" in meta.json
id=$1; P=${id%-*}
out=$(/verif/tools/run_seeded.sh /verif/seeded/$id/patch.diff $P 2>&1 | grep "^VIOLATION\|^OK\|^FAIL\|^ERROR\|PATCH DOES NOT" | sed 's/ tier=quick//; s/ evaluations=[0-9]*//; s/ wall=[0-9]*s//')
nv=$(echo "$out" | grep -c "^VIOLATION.*json$"); nn=$(echo "$out" | grep -c "no-failing-input-found"); v=$(echo "$out" | grep "^OK\|^FAIL\|^ERROR\|PATCH" | paste -sd';')
python3 - "$id" "$v" "$nv" "$nn" <<'PY'
import json,sys,time
i,v,nv,nn=sys.argv[1:5]
p='/verif/seeded/%s/meta.json'%i; m=json.load(open(p))
m['regression']={"when":time.strftime("%Y-%m-%d %H:%M"),"check":i.split('-')[0],"verdict":v,"concrete_replays":int(nv),"no_failing_input_found":int(nn),
                 "detected": v.startswith("FAIL")}
json.dump(m,open(p,'w'),indent=1)
PY
echo "$id :: $v :: concrete=$nv nfi=$nn"
