#!/bin/bash
# tools/confirm_seed.sh <outdir> <k> <pkgdir> <testregex> [extra test pkgs...]
# Confirms a seeded mutation independently: demo passes on the clean tree, fails with
# the patch; patch applies, builds; existing tests of the given packages still pass.
set -u
OUT=$1; K=$2; PKG=$3; RX=$4; shift 4
export GOFLAGS=-mod=mod GOPROXY=off
W=/tmp/cs_$$
git -C /repo worktree add -q --detach $W HEAD || exit 2
trap 'git -C /repo worktree remove --force $W 2>/dev/null' EXIT
cp $OUT/demo${K}_test.go $W/$PKG/zz_demo${K}_test.go
cd $W
echo "--- demo on clean tree (must PASS)"; go test -count=1 -run "$RX" ./$PKG/ 2>&1 | tail -3
git apply $OUT/mut$K.diff || { echo "PATCH DOES NOT APPLY"; exit 1; }
echo "--- build"; go build ./... 2>&1 | grep -v "duk\|sprintf\|^\s\|~\|comp\." | head -5
echo "--- demo with patch (must FAIL)"; go test -count=1 -run "$RX" ./$PKG/ 2>&1 | tail -4
rm $W/$PKG/zz_demo${K}_test.go
echo "--- existing tests (must PASS)"; go test -count=1 ./$PKG/ "$@" 2>&1 | grep -v "^\s\|duk\|sprintf" | tail -8
