#!/usr/bin/env python3
"""Regenerates /verif/MANIFEST.json from props/*.json (one check per registered property)."""
import json, os, glob, subprocess
ROOT = os.path.dirname(os.path.dirname(os.path.abspath(__file__)))
TITLES = {l["id"]: l["title"] for l in map(json.loads, open(os.path.join(ROOT, "properties.jsonl")))}
TEXT = {
 "C01": "Coq theorems about the block-import decision model (accept iff every header commitment equals the recomputed one; rejection leaves the store unchanged; a built block imports with the builder's results), tied to core/ by differential import across arrival histories, own-builder import and exhaustive single-field corruption",
 "C02": "Coq invariants over every history of InsertChain calls on a code-shaped model of core.BlockChain (td additivity, head td monotone, head heaviest among stored blocks), tied by state/write-log correspondence on generated block trees",
 "C03": "Coq invariant proofs (and vm_compute refutations of the clauses the code violates) about the canonical index of the same chain model, tied by per-operation correspondence and a direct CanonOK oracle",
 "C04": "Coq theorems over every prefix of the model's database write log, tied by reopening the real chain on every prefix of the recorded write log and on every injected write failure",
 "C05": "Coq theorems: transfers conserve supply, a transaction never inflates it, rewards equal the scheduled issuance (constants regenerated from the source), tied by full-state balance sums on generated blocks",
 "C06": "Coq theorems about the state-transition model (exact charges, nonce, refund cap, gas accounting, failed-tx rollback, invalid-tx rejection, receipt format), tied by a lattice of transactions through ApplyTransaction/Process",
 "C07": "Coq theorems about a fuelled interpreter model over the generated jump tables (gas bounded, depth bounded, termination, failed frames revert, static frames read-only), tied by step-for-step trace correspondence on adversarial programs",
 "C08": "Unbounded Coq proofs that each modelled instruction / gas function equals the Yellow-Paper definition; jump tables and fork selection regenerated from the source and re-proved equal to the specification table on every run; tied by boundary-lattice execution through the real interpreter",
 "C09": "Coq theorems about a field-for-field model of StateDB and its journal (revert restores observables; refutations for the hidden-state defects), tied by per-operation correspondence on random histories",
 "C10": "Coq theorems: trie insert/delete/get refine a finite map, the root equals the specification root of the content and is history independent; tied by operation-sequence correspondence incl. commit/reopen/unload and proof verification",
 "C11": "Coq theorems (round trip, canonicity, one encoding per value, boundedness) for the item-level and typed RLP codec; consensus type descriptors regenerated from the source by reflection; tied by exhaustive + structured + typed correspondence",
 "C12": "Coq theorems (sighash injectivity, sender binding, chain binding, signature-range decision rule, cache soundness) over abstract hash/ECDSA with explicit premises; tied by mutation correspondence with oracle tables for the primitives",
 "C13": "Coq theorems: verify_header accepts iff the consensus rules hold, difficulty equals the fork table for every fork map (instantiated at the generated built-in configs), uncle rules, batch = sequential for every schedule; tied by boundary-lattice correspondence",
 "C14": "Coq theorems for arbitrary hash functions: seal accepted iff target met and mix digest expected, version by height over generated fork maps, mined seals verify; tied by correspondence with PoW outputs as oracle values",
 "C15": "Coq invariants over every operation history and oracle of a branch-for-branch pool model (unique nonce, replacement bump, ...), tied by per-operation correspondence incl. internal indexes",
 "C16": "Coq theorems for every hash function: no false negatives, index bits agree, matcher = bloom filter, query = brute force for every range/section size/index progress; tied by chain-level correspondence through the real indexer and matcher",
 "C17": "Coq theorems about the frame codec and discovery packet codec over abstract primitives (round trip, tamper detection, size bounds, authenticity), tied by session and datagram mutation correspondence",
 "C18": "Coq theorems over the API list, protected-name predicate and call-graph signing bits regenerated from the source on every run (no protected method without opt-in; opt-in is per transport), tied by calling every served method on a real node with a signing counter hook",
 "C19": "Coq invariants over every reachable state of an LTS model of event.Feed, tied by validating recorded traces of the instrumented implementation as LTS paths and by black-box history oracles",
 "C20": "Coq theorems over abstract KDF/AES/hash with explicit premises (round trip, wrong passphrase fails, tamper-safe unlocking), tied by field-mutation correspondence with oracle tables",
}
checks = []
ids = sorted(os.path.basename(f)[:-5] for f in glob.glob(os.path.join(ROOT, "props", "C*.json")))
for pid in ids:
    p = json.load(open(os.path.join(ROOT, "props", pid + ".json")))
    checks.append({
        "property_id": pid,
        "quick_cmd": "./check %s --tier quick" % pid,
        "thorough_cmd": "./check %s --tier thorough" % pid,
        "evidence_file": "evidence/%s.json" % pid,
        "replay_cmd_template": "./check %s --replay {path}" % pid,
        "engine": "coq",
        "level_claimed": {"category": "proof", "text": TEXT.get(pid, TITLES.get(pid, "")), "design_ref": "DESIGN.md section 7 (%s) and section 10" % pid},
        "level_note": "trusted: Coq 8.16.1 kernel, extraction (ExtrOcamlBasic only), OCaml/Go glue, translator where used; modelled rather than verified: " + "; ".join(p.get("trusted_base", []))[:900],
        "technique": "machine-checked proof in Coq (Rocq 8.16) over an executable model + " + ("translator-regenerated tables + " if p.get("generated") else "") + "model/implementation correspondence",
    })
hooks = subprocess.run(["git", "-C", "/repo", "log", "--format=%h %s", "--grep=^verif hook"], capture_output=True, text=True).stdout.strip().splitlines()
all_ids = ["C%02d" % i for i in range(1, 21)]
missing = [i for i in all_ids if i not in ids]
m = {
 "version": 1,
 "setup_cmd": "./check --setup",
 "hooks": {
  "guard": "verif",
  "enable": "go build -tags verif (the harness module /verif/harness replaces gitlab.com/aquachain/aquachain with /repo and is always built with -tags verif)",
  "baseline_off_cmd": "cd /repo && go test -vet=off -count=1 -timeout 25m ./...",
  "source_commits": hooks,
  "add_only": True,
 },
 "engines": [
  {"name": "coq", "path": "coq", "serves_properties": ids, "kind_free_text": "Coq 8.16.1 development: hand-written models/specs/proofs per area + translator-generated tables (coq/Generated)"},
  {"name": "harness", "path": "harness", "serves_properties": ids, "kind_free_text": "Go correspondence harnesses + translator, rebuilt against /repo's working tree on every run; extracted OCaml models in ocaml/"},
 ],
 "checks": checks,
 "not_applicable": [],
 "notes": ("Properties still being built (not declared not-applicable): " + ", ".join(missing)) if missing else "All twenty properties are claimed.",
}
json.dump(m, open(os.path.join(ROOT, "MANIFEST.json"), "w"), indent=1)
print("MANIFEST.json:", len(checks), "checks; missing:", missing)
