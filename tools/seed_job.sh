#!/bin/bash
# tools/seed_job.sh P k pkg rx checks...   -> /tmp/seedres/P-k.txt
P=$1; K=$2; PKG=$3; RX=$4; shift 4
{
echo "##### $P mut$K"
if [ -z "${SKIP_CONFIRM:-}" ]; then /verif/tools/confirm_seed.sh /tmp/seed/$P.out $K $PKG $RX 2>&1 | grep -v "^\s*$" | grep -A2 "^---" | grep -v "^--$" | cut -c1-200; fi
echo "##### checks: $@"
/verif/tools/run_seeded.sh /tmp/seed/$P.out/mut$K.diff "$@" 2>&1 | grep "^VIOLATION\|^OK\|^FAIL\|^KNOWN\|^ERROR\|proof build failed\|go build failed" | cut -c1-400 | awk '{c[$1" "$2]++; if (c[$1" "$2] <= 3) print}'
} > /tmp/seedres/$P-$K.txt 2>&1
